"""Input-space partitions: a partition is the cartesian product of *splits*;
a split is a list of mutually exclusive, jointly exhaustive predicates over the
named symbolic inputs (python expressions, e.g. 's0<s1', 's0==s1', 's0>s1').
``check_exhaustive`` discharges 'the union of the parts is everything' with z3."""
from __future__ import annotations

import itertools
import re

import z3


def tri(a: str, b: str) -> list[str]:
    return [f'{a}<{b}', f'{a}=={b}', f'{a}>{b}']


def zero(a: str) -> list[str]:
    return [f'{a}==0', f'{a}>0']


def product(*splits: list[str]) -> list[list[str]]:
    return [list(c) for c in itertools.product(*splits)]


def weak_orders(names: list[str]) -> list[list[str]]:
    """all weak orderings of the names as conjunctions of pairwise relations."""
    pairs = list(itertools.combinations(names, 2))
    out = []
    for rel in itertools.product('<=>', repeat=len(pairs)):
        cons = [f"{a}{'==' if r == '=' else r}{b}" for (a, b), r in zip(pairs, rel)]
        s = z3.Solver()
        env = {n: z3.Int(n) for n in names}
        for c in cons:
            s.add(eval(c, {'__builtins__': {}}, env))
        if s.check() == z3.sat:
            out.append(cons)
    return out


def check_exhaustive(parts: list[list[str]], nonneg: bool = True) -> bool:
    names = sorted(set(re.findall(r'[A-Za-z_][A-Za-z_0-9]*', ' '.join(sum(parts, [])))))
    env = {n: z3.Int(n) for n in names}
    s = z3.Solver()
    if nonneg:
        for v in env.values():
            s.add(v >= 0)
    disj = []
    for p in parts:
        disj.append(z3.And(*[eval(c, {'__builtins__': {}}, env) for c in p]) if p else z3.BoolVal(True))
    s.add(z3.Not(z3.Or(*disj)))
    return s.check() == z3.unsat
