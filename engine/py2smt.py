"""AST -> z3 for the small pure helpers (utilities.rake, utilities.divmod).

The function's CURRENT source is read with inspect, parsed, and evaluated
symbolically over z3 terms; every ``if`` on a symbolic condition forks, so the
result is a list of paths (condition, outcome) where outcome is ('return',
values) or ('raise', exception name).  Unsupported syntax raises Unsupported
(=> the obligation is reported inconclusive, never passed)."""
from __future__ import annotations

import ast
import inspect
import textwrap
from typing import Any

import z3

RNE = z3.RNE()
F64 = z3.Float64()
_FP = [F64]


def set_fp_sort(sort: Any) -> None:
    _FP[0] = sort


def fp_sort() -> Any:
    return _FP[0]


class Unsupported(Exception):
    pass


class V:
    """typed symbolic value: kind in int|fp|bool|none|inf|tuple|state"""

    def __init__(self, kind: str, term: Any = None, fp: Any = None) -> None:
        self.kind, self.term, self.fp = kind, term, fp


def to_fp(v: V) -> Any:
    if v.kind == 'fp':
        return v.term
    if v.kind == 'int':
        if v.fp is not None:
            return v.fp          # exact FP shadow of an integer below 2**53
        return z3.fpToFP(RNE, z3.ToReal(v.term), _FP[0])
    if v.kind == 'inf':
        return z3.fpPlusInfinity(_FP[0])
    raise Unsupported(f'to_fp {v.kind}')


class Interp:
    shadow = False

    def __init__(self, fn: Any, args: dict[str, V]) -> None:
        src = textwrap.dedent(inspect.getsource(fn))
        self.tree = ast.parse(src).body[0]
        assert isinstance(self.tree, ast.FunctionDef)
        self.args = args
        self.paths: list = []
        self.source = src
        self.rounds: list = []      # (fresh Int, FP term it is the exact value of)

    def run(self) -> list:
        env = dict(self.args)
        self.block(self.tree.body, env, z3.BoolVal(True))
        return self.paths

    # statements ----------------------------------------------------------
    def block(self, stmts: list, env: dict, pc: Any) -> bool:
        """returns True if control falls through"""
        for i, st in enumerate(stmts):
            if isinstance(st, ast.Expr) and isinstance(st.value, ast.Constant):
                continue
            if isinstance(st, ast.Assign):
                if len(st.targets) != 1 or not isinstance(st.targets[0], ast.Name):
                    raise Unsupported('assign target')
                env[st.targets[0].id] = self.expr(st.value, env)
            elif isinstance(st, ast.Return):
                self.paths.append((pc, 'return', self.expr(st.value, env)))
                return False
            elif isinstance(st, ast.Raise):
                name = st.exc.func.id if isinstance(st.exc, ast.Call) else getattr(st.exc, 'id', '?')
                self.paths.append((pc, 'raise', name))
                return False
            elif isinstance(st, ast.If):
                c = self.expr(st.test, env)
                if c.kind != 'bool':
                    raise Unsupported('if on non-bool')
                rest = stmts[i + 1:]
                e1, e2 = dict(env), dict(env)
                cs = z3.simplify(c.term)
                if not z3.is_false(cs):
                    if self.block(st.body, e1, z3.And(pc, c.term)):
                        self.block(rest, e1, z3.And(pc, c.term))
                if not z3.is_true(cs):
                    if self.block(st.orelse, e2, z3.And(pc, z3.Not(c.term))):
                        self.block(rest, e2, z3.And(pc, z3.Not(c.term)))
                return False
            else:
                raise Unsupported(f'statement {type(st).__name__}')
        return True

    # expressions ----------------------------------------------------------
    def expr(self, e: ast.AST, env: dict) -> V:
        if isinstance(e, ast.Constant):
            if isinstance(e.value, bool):
                return V('bool', z3.BoolVal(e.value))
            if isinstance(e.value, int):
                return V('int', z3.IntVal(e.value))
            if isinstance(e.value, float):
                return V('fp', z3.FPVal(e.value, _FP[0]))
            if e.value is None:
                return V('none')
            raise Unsupported('constant')
        if isinstance(e, ast.Name):
            if e.id in env:
                return env[e.id]
            if e.id == 'inf':
                return V('inf')
            raise Unsupported(f'name {e.id}')
        if isinstance(e, ast.Tuple):
            return V('tuple', [self.expr(x, env) for x in e.elts])
        if isinstance(e, ast.UnaryOp) and isinstance(e.op, ast.Not):
            v = self.expr(e.operand, env)
            return V('bool', z3.Not(self.truth(v)))
        if isinstance(e, ast.BoolOp):
            vs = [self.truth(self.expr(x, env)) for x in e.values]
            return V('bool', z3.And(*vs) if isinstance(e.op, ast.And) else z3.Or(*vs))
        if isinstance(e, ast.Compare):
            left = self.expr(e.left, env)
            parts = []
            for op, right_e in zip(e.ops, e.comparators):
                right = self.expr(right_e, env)
                parts.append(self.compare(op, left, right))
                left = right
            return V('bool', z3.And(*parts))
        if isinstance(e, ast.BinOp):
            a, b = self.expr(e.left, env), self.expr(e.right, env)
            return self.binop(e.op, a, b)
        if isinstance(e, ast.Attribute):
            base = self.expr(e.value, env) if not (isinstance(e.value, ast.Name) and e.value.id == 'builtins') else V('builtins')
            if base.kind == 'state' and e.attr == 'board_cards':
                return V('boards', base.term)
            if base.kind == 'builtins':
                return V('builtin', e.attr)
            raise Unsupported(f'attribute {e.attr}')
        if isinstance(e, ast.Call):
            return self.call(e, env)
        raise Unsupported(f'expression {type(e).__name__}')

    def truth(self, v: V) -> Any:
        if v.kind == 'bool':
            return v.term
        raise Unsupported(f'truth of {v.kind}')

    def compare(self, op: ast.AST, a: V, b: V) -> Any:
        if a.kind == 'none' or b.kind == 'none':
            same = a.kind == b.kind
            if isinstance(op, ast.Is):
                return z3.BoolVal(same)
            if isinstance(op, ast.IsNot):
                return z3.BoolVal(not same)
            raise Unsupported('none compare')
        if a.kind == 'state' or b.kind == 'state':
            if isinstance(op, ast.Is) and (a.kind == 'none' or b.kind == 'none'):
                return z3.BoolVal(False)
            raise Unsupported('state compare')
        if a.kind == 'int' and b.kind == 'int':
            x, y = a.term, b.term
            table = {ast.Lt: x < y, ast.LtE: x <= y, ast.Gt: x > y, ast.GtE: x >= y,
                     ast.Eq: x == y, ast.NotEq: x != y}
        else:
            # python compares int with float exactly; all ints here are < 2**53 (stated bound)
            x, y = to_fp(a), to_fp(b)
            table = {ast.Lt: z3.fpLT(x, y), ast.LtE: z3.fpLEQ(x, y), ast.Gt: z3.fpGT(x, y),
                     ast.GtE: z3.fpGEQ(x, y), ast.Eq: z3.fpEQ(x, y), ast.NotEq: z3.Not(z3.fpEQ(x, y))}
        for k, v in table.items():
            if isinstance(op, k):
                return v
        raise Unsupported('compare op')

    def binop(self, op: ast.AST, a: V, b: V) -> V:
        if a.kind == 'int' and b.kind == 'int':
            if isinstance(op, ast.Mult):
                return V('int', a.term * b.term)
            if isinstance(op, ast.Sub):
                return V('int', a.term - b.term)
            if isinstance(op, ast.Add):
                return V('int', a.term + b.term)
            raise Unsupported('int op')
        x, y = to_fp(a), to_fp(b)
        if isinstance(op, ast.Mult):
            return V('fp', z3.fpMul(RNE, x, y))
        if isinstance(op, ast.Sub):
            return V('fp', z3.fpSub(RNE, x, y))
        if isinstance(op, ast.Add):
            return V('fp', z3.fpAdd(RNE, x, y))
        if isinstance(op, ast.Div):
            return V('fp', z3.fpDiv(RNE, x, y))
        raise Unsupported('fp op')

    def call(self, e: ast.Call, env: dict) -> V:
        fn = e.func
        name = fn.id if isinstance(fn, ast.Name) else None
        if name == 'isinstance':
            v = self.expr(e.args[0], env)
            cls = e.args[1].id if isinstance(e.args[1], ast.Name) else '?'
            if cls == 'Integral':
                return V('bool', z3.BoolVal(v.kind == 'int'))
            raise Unsupported(f'isinstance {cls}')
        if name == 'round':
            v = self.expr(e.args[0], env)
            if v.kind == 'int':
                return v
            # python round(float) = round-half-even to an int
            r = z3.fpRoundToIntegral(RNE, v.term)
            if self.shadow:
                ri = z3.Int(f'round_{len(self.rounds)}')
                self.rounds.append((ri, r))
                return V('int', ri, r)
            return V('int', z3.ToInt(z3.fpToReal(r)))
        if name == 'min':
            a, b = self.expr(e.args[0], env), self.expr(e.args[1], env)
            if b.kind == 'inf':
                return a
            if a.kind == 'int' and b.kind == 'int':
                return V('int', z3.If(b.term < a.term, b.term, a.term))
            raise Unsupported('min kinds')
        if name == 'cast':
            return self.expr(e.args[1], env)
        if name == 'any':
            v = self.expr(e.args[0], env)
            if v.kind == 'boards':
                return V('bool', v.term)
            raise Unsupported('any')
        if isinstance(fn, ast.Attribute):
            f = self.expr(fn, env)
            if f.kind == 'builtin' and f.term == 'divmod':
                a, b = self.expr(e.args[0], env), self.expr(e.args[1], env)
                if a.kind == 'int' and b.kind == 'int':
                    # python floor division for positive divisor == SMT-LIB div/mod
                    return V('tuple', [V('int', a.term / b.term), V('int', a.term % b.term)])
        raise Unsupported(f'call {ast.dump(fn)[:60]}')
