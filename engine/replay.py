from __future__ import annotations
import importlib


def replay(module: str, fn: str, params: dict, values: dict) -> dict:
    from engine.symex import run_native
    mod = importlib.import_module(module)
    r = run_native(getattr(mod, fn), params, values)
    r['status'] = 'replayed'
    return r
