"""Job scheduler, aggregation, evidence writer and exit-code policy.

./check <Cxx> [--tier quick|thorough] [--replay file] [--jobs pattern]
"""
from __future__ import annotations

import argparse
import concurrent.futures as cf
import fnmatch
import importlib
import json
import os
import subprocess
import sys
import time
from collections import Counter
from pathlib import Path

VERIF = Path(__file__).resolve().parent.parent
REPO = os.environ.get('VERIF_REPO', '/repo')
PY = os.environ.get('VERIF_PYTHON', 'python3-vt')
EXIT_OK, EXIT_VIOLATION, EXIT_HARNESS = 0, 1, 3


def _env() -> dict:
    env = dict(os.environ)
    env['PYTHONPATH'] = f'{VERIF}:{REPO}'
    env['VERIF_REPO'] = REPO
    env['PYTHONHASHSEED'] = '0'
    env.setdefault('PYTHONDONTWRITEBYTECODE', '1')
    return env


def run_job(job: dict) -> dict:
    hard = job.get('budget_s', 60) * 1.6 + 90
    t0 = time.time()
    try:
        p = subprocess.run([PY, '-m', 'engine.worker'], input=json.dumps(job),
                           capture_output=True, text=True, timeout=hard,
                           cwd=str(VERIF), env=_env())
    except subprocess.TimeoutExpired:
        return {'name': job['name'], 'status': 'inconclusive',
                'reason': f'hard timeout {hard:.0f}s', 'job_wall_s': time.time() - t0}
    for line in reversed(p.stdout.splitlines()):
        if line.startswith('@@RESULT@@'):
            r = json.loads(line[len('@@RESULT@@'):])
            r['stderr_tail'] = p.stderr[-500:] if r.get('status') == 'harness-error' else ''
            return r
    return {'name': job['name'], 'status': 'harness-error',
            'reason': f'worker died rc={p.returncode}', 'stderr_tail': p.stderr[-2000:],
            'job_wall_s': time.time() - t0}


def load_known() -> dict:
    p = VERIF / 'known_findings.json'
    if p.exists():
        return json.loads(p.read_text())
    return {'findings': [], 'fixed': []}


def main(argv: list[str] | None = None) -> int:
    ap = argparse.ArgumentParser()
    ap.add_argument('prop')
    ap.add_argument('--tier', default=os.environ.get('VERIF_TIER', 'quick'),
                    choices=['quick', 'thorough'])
    ap.add_argument('--replay')
    ap.add_argument('--jobs', default='*', help='glob over job names')
    ap.add_argument('--workers', type=int, default=int(os.environ.get('VERIF_WORKERS', '16')))
    ap.add_argument('--list', action='store_true')
    ap.add_argument('--no-evidence', action='store_true')
    args = ap.parse_args(argv)
    pid = args.prop.upper()
    seed = int(os.environ.get('VERIF_SEED', '0') or 0)
    sys.path.insert(0, str(VERIF))
    sys.path.insert(1, REPO)
    os.environ['VERIF_REPO'] = REPO

    if args.replay:
        spec = json.loads(Path(args.replay).read_text())
        job = dict(spec['job'])
        job['kind'] = 'native'
        job['module'] = 'engine.replay'
        job['fn'] = 'replay'
        job['params'] = {'module': spec['job']['module'], 'fn': spec['job']['fn'],
                         'params': spec['job'].get('params', {}), 'values': spec['values']}
        r = run_job(job)
        print(json.dumps(r, indent=1, default=str))
        if r.get('outcome') == 'viol':
            print(f'VIOLATION property={pid} replay={args.replay}')
            return EXIT_VIOLATION
        return EXIT_OK

    t0 = time.time()
    spec_mod = importlib.import_module(f'harness.{pid.lower()}')
    jobs = spec_mod.jobs(args.tier, seed)
    jobs = [j for j in jobs if fnmatch.fnmatch(j['name'], args.jobs)]
    for j in jobs:
        j.setdefault('module', f'harness.{pid.lower()}')
    if args.list:
        for j in jobs:
            print(j['name'], j.get('budget_s'), j.get('kind', 'symex'))
        return 0
    # longest first
    jobs.sort(key=lambda j: (-j.get('prio', 5), -j.get('budget_s', 0)))
    results = []
    with cf.ThreadPoolExecutor(max_workers=args.workers) as ex:
        futs = {ex.submit(run_job, j): j for j in jobs}
        for f in cf.as_completed(futs):
            r = f.result()
            r['job'] = futs[f]
            results.append(r)
            line = (f"[{pid}] {r['name']}: {r.get('status')} paths={r.get('paths', '-')} "
                    f"cpu={r.get('cpu_s', '-')} {str(r.get('reason', ''))[:200]}")
            print(line, flush=True)
    results.sort(key=lambda r: r['name'])
    known = load_known()
    known_for = [k for k in known.get('findings', []) if k['property'] == pid]
    rc = EXIT_OK
    viol_lines = []
    n_viol = 0
    rep_dir = VERIF / 'evidence' / 'replays'
    for r in results:
        st = r.get('status')
        if st == 'violation':
            n_viol += 1
            rep_dir.mkdir(parents=True, exist_ok=True)
            rp = rep_dir / f"{pid}-{r['name'].replace('/', '_')}.json"
            rp.write_text(json.dumps({'property': pid, 'job': r['job'],
                                      'values': r['replay']['values'],
                                      'kind': r.get('kind'), 'detail': r.get('detail'),
                                      'trace': r['replay'].get('trace')}, indent=1, default=str))
            viol_lines.append(f'VIOLATION property={pid} replay={rp}')
            rc = EXIT_VIOLATION
        elif st == 'known-finding':
            print(f"KNOWN-FINDING: property={pid} {r.get('what', r['name'])}")
        elif st == 'harness-error':
            print(f"HARNESS-ERROR job={r['name']} {r.get('reason')}\n{r.get('traceback', '')}"
                  f"\n{r.get('stderr_tail', '')}")
            if rc == EXIT_OK:
                rc = EXIT_HARNESS
        elif st == 'inconclusive':
            print(f"INCONCLUSIVE obligation={r['name']} reason={r.get('reason')}")
    for line in viol_lines:
        print(line)
    if not args.no_evidence and args.jobs == '*':
        write_evidence(pid, args.tier, seed, results, spec_mod, time.time() - t0, n_viol)
    c = Counter(r.get('status') for r in results)
    print(f'[{pid}] tier={args.tier} jobs={len(results)} {dict(c)} wall={time.time() - t0:.0f}s rc={rc}')
    return rc


def write_evidence(pid: str, tier: str, seed: int, results: list, spec_mod, wall: float,
                   n_viol: int) -> None:
    meta = getattr(spec_mod, 'META', {})
    sym = [r for r in results if r.get('kind', 'symex') == 'symex']
    smt = [r for r in results if r.get('kind') == 'native' and 'queries' in r]
    paths = sum(r.get('paths', 0) or 0 for r in sym)
    ops = sum(r.get('ops', 0) or 0 for r in sym)
    twins = sum(len(r.get('twins', [])) for r in sym) + sum(1 for r in sym if r.get('replay'))
    twins += sum(r.get('native_replays', 0) for r in results)
    samples = []
    for r in results:
        for s in (r.get('samples') or [])[:1]:
            samples.append({'job': r['name'], 'inputs': s})
        for s in (r.get('sample_queries') or [])[:2]:
            samples.append({'job': r['name'], 'query': s})
    samples = samples[:40]
    obligations = []
    for r in results:
        obligations.append({
            'name': r['name'], 'verdict': r.get('status'), 'reason': r.get('reason'),
            'paths': r.get('paths'), 'paths_by_status': r.get('paths_by_status'),
            'solver_decisions': r.get('decisions'), 'operations_executed': r.get('ops'),
            'covered': r.get('covered'), 'known_hits': r.get('known_hits'),
            'cpu_s': r.get('cpu_s'), 'wall_s': r.get('job_wall_s'),
            'queries': r.get('queries'), 'solver_s': r.get('solver_s'),
            'bounds': r.get('job', {}).get('bounds'), 'params': r.get('job', {}).get('params'),
        })
    c = Counter(r.get('status') for r in results)
    cov = {
        'states': max(1, paths + sum(r.get('queries', 0) or 0 for r in results)),
        'transitions': max(1, ops + sum(r.get('queries', 0) or 0 for r in results)),
        'traces_validated_against_impl': twins,
        'samples': samples or [{'note': 'no sample recorded'}],
        'obligations': len(results),
        'discharged': c.get('confirmed', 0),
        'inconclusive': c.get('inconclusive', 0),
        'violations': c.get('violation', 0),
        'known_findings_reproduced': c.get('known-finding', 0),
        'exhaustive': False,
        'explanation': meta.get('explanation', ''),
        'functions_encoded': meta.get('functions', []),
        'bounds': meta.get('bounds', {}).get(tier, meta.get('bounds', '')),
        'outside_the_claim': meta.get('outside', ''),
        'solver_time_cpu_s': round(sum((r.get('cpu_s') or 0) + (r.get('solver_s') or 0)
                                       for r in results), 1),
        'queries_discharged': sum(r.get('decisions', 0) or 0 for r in sym)
        + sum(r.get('queries', 0) or 0 for r in results),
        'obligation_table': obligations,
        'states_meaning': 'feasible paths of the harness explored by CrossHair/z3 '
                          '(+ SMT queries for E2 obligations)',
        'transitions_meaning': 'public pokerkit operations executed symbolically '
                               '(monitor invocations) (+ SMT queries)',
    }
    ev = {
        'property_id': pid, 'tier': tier, 'seed': seed, 'level': 'model_checking',
        'coverage': cov,
        'assumptions': meta.get('assumptions', []),
        'wall_s': round(wall, 1), 'violations': n_viol,
    }
    out = VERIF / 'evidence' / f'{pid}.json'
    out.parent.mkdir(exist_ok=True)
    out.write_text(json.dumps(ev, indent=1, default=str))


if __name__ == '__main__':
    sys.exit(main())
