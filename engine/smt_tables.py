"""E2: lookup tables as SMT data.

On every run the lookup objects are instantiated by /repo's current code, their
private entry dictionaries are dumped, every key is factored over the real
multipliers into a rank-count vector, and the table becomes a z3 function
T(counts, suited) -> index | absent (balanced ITE over the dumped rows).  A
*symbolic* hand class (13 counts in 0..4 + suitedness) is compared with a
rule-based oracle written directly in bit-vector logic from the rules of poker.
"""
from __future__ import annotations

import time
from typing import Any

import z3

CB = 3            # bits per rank count
ABSENT = (1 << 15) - 1
IW = 16           # index width


def dump_lookup(lookup: Any) -> dict:
    """rows: list of (counts tuple over ALL 13 ranks in Rank order, suited, index, label)."""
    from pokerkit.lookups import Lookup
    from pokerkit.utilities import Rank
    entries = getattr(lookup, '_Lookup__entries')
    mult = dict(getattr(Lookup, '_Lookup__multipliers'))
    ranks = [r for r in Rank if r in mult]
    primes = [mult[r] for r in ranks]
    # sanity: pairwise coprime > 1 (otherwise factorisation is ambiguous => generation code wrong)
    import math
    for i, p in enumerate(primes):
        assert p > 1
        for q in primes[:i]:
            assert math.gcd(p, q) == 1, 'multipliers not coprime'
    rows = []
    for (h, suited), entry in entries.items():
        counts = []
        x = h
        for p in primes:
            c = 0
            while x % p == 0:
                x //= p
                c += 1
            counts.append(c)
        assert x == 1, f'key {h} does not factor over the multipliers'
        rows.append((tuple(counts), bool(suited), entry.index, str(entry.label.name)))
    return {'ranks': ranks, 'rows': rows, 'rank_order': list(lookup.rank_order)}


class Sym:
    """A symbolic hand class."""

    def __init__(self, name: str, nranks: int = 13) -> None:
        self.c = [z3.BitVec(f'{name}_c{i}', CB) for i in range(nranks)]
        self.suited = z3.Bool(f'{name}_suited')
        self.key = z3.Concat(*([z3.If(self.suited, z3.BitVecVal(1, 1), z3.BitVecVal(0, 1))]
                               + self.c))

    def n(self) -> Any:
        return z3.Sum([z3.ZeroExt(8 - CB, c) for c in self.c])

    def domain(self, max_cards: int = 7) -> Any:
        """physically possible sets of distinct cards of at most max_cards."""
        cons = [z3.ULE(c, 4) for c in self.c]
        cons.append(z3.ULE(self.n(), max_cards))
        cons.append(z3.Implies(self.suited, z3.And(*[z3.ULE(c, 1) for c in self.c])))
        cons.append(z3.Implies(z3.ULE(self.n(), 1), self.suited))
        return z3.And(*cons)


def key_of(counts: tuple, suited: bool) -> int:
    k = 1 if suited else 0
    for c in counts:
        k = (k << CB) | c
    return k


def table_fn(rows: list, key: Any, what: str = 'index', labels: list | None = None) -> Any:
    """balanced ITE: key -> index (ABSENT if not present) / label id."""
    items = sorted((key_of(c, s), (idx if what == 'index' else labels.index(lab)))
                   for c, s, idx, lab in rows)
    width = key.size()

    def build(lo: int, hi: int) -> Any:
        if lo >= hi:
            return z3.BitVecVal(ABSENT, IW)
        if hi - lo == 1:
            k, v = items[lo]
            return z3.If(key == z3.BitVecVal(k, width), z3.BitVecVal(v, IW),
                         z3.BitVecVal(ABSENT, IW))
        mid = (lo + hi) // 2
        return z3.If(z3.ULT(key, z3.BitVecVal(items[mid][0], width)), build(lo, mid),
                     build(mid, hi))
    return build(0, len(items))


# ---- rule oracle -----------------------------------------------------------

CATS = ['HIGH_CARD', 'ONE_PAIR', 'TWO_PAIR', 'THREE_OF_A_KIND', 'STRAIGHT', 'FLUSH',
        'FULL_HOUSE', 'FOUR_OF_A_KIND', 'STRAIGHT_FLUSH']

# rules per lookup class name, written from the rules of each game
RULES = {
    'StandardLookup': dict(cards=[5], straights=True, flushes=True, paired=True,
                           order=['HIGH_CARD', 'ONE_PAIR', 'TWO_PAIR', 'THREE_OF_A_KIND', 'STRAIGHT',
                                  'FLUSH', 'FULL_HOUSE', 'FOUR_OF_A_KIND', 'STRAIGHT_FLUSH'],
                           ranks='23456789TJQKA'),
    'ShortDeckHoldemLookup': dict(cards=[5], straights=True, flushes=True, paired=True,
                                  order=['HIGH_CARD', 'ONE_PAIR', 'TWO_PAIR', 'THREE_OF_A_KIND',
                                         'STRAIGHT', 'FULL_HOUSE', 'FLUSH', 'FOUR_OF_A_KIND',
                                         'STRAIGHT_FLUSH'],
                                  ranks='6789TJQKA'),
    'EightOrBetterLookup': dict(cards=[5], straights=False, flushes=False, paired=False,
                                order=['HIGH_CARD'], ranks='A2345678'),
    'RegularLookup': dict(cards=[5], straights=False, flushes=False, paired=True,
                          order=['HIGH_CARD', 'ONE_PAIR', 'TWO_PAIR', 'THREE_OF_A_KIND',
                                 'FULL_HOUSE', 'FOUR_OF_A_KIND'], ranks='A23456789TJQK'),
    'BadugiLookup': dict(cards=[1, 2, 3, 4], badugi=True, straights=False, flushes=False,
                         paired=False, order=['HIGH_CARD'], ranks='A23456789TJQK'),
    'StandardBadugiLookup': dict(cards=[1, 2, 3, 4], badugi=True, straights=False, flushes=False,
                                 paired=False, order=['HIGH_CARD'], ranks='23456789TJQKA'),
    'KuhnPokerLookup': dict(cards=[1], straights=False, flushes=False, paired=False,
                            order=['HIGH_CARD'], ranks='JQK', single=True),
    # stud openers: 1-4 exposed cards, no straights/flushes, suitedness irrelevant
    '_LowHandOpeningLookup': dict(cards=[1, 2, 3, 4], straights=False, flushes=False, paired=True,
                                  order=['HIGH_CARD', 'ONE_PAIR', 'TWO_PAIR', 'THREE_OF_A_KIND',
                                         'FOUR_OF_A_KIND'], ranks='A23456789TJQK', opening=True),
    '_HighHandOpeningLookup': dict(cards=[1, 2, 3, 4], straights=False, flushes=False, paired=True,
                                   order=['HIGH_CARD', 'ONE_PAIR', 'TWO_PAIR', 'THREE_OF_A_KIND',
                                          'FOUR_OF_A_KIND'], ranks='23456789TJQKA', opening=True),
}


class Oracle:
    """rules of one hand type over a symbolic hand; ranks re-ordered to the
    type's own rank order (position 0 = lowest)."""

    def __init__(self, rules: dict, all_ranks: list, hand: Sym) -> None:
        self.r = rules
        order = list(rules['ranks'])
        names = [str(x.value) for x in all_ranks]
        self.pos = [names.index(ch) for ch in order]          # positions of the type's ranks
        self.other = [i for i in range(len(names)) if i not in self.pos]
        self.h = hand
        m = len(order)
        self.m = m
        c = [hand.c[p] for p in self.pos]

        def mask(k: int) -> Any:
            bits = [z3.If(c[i] == k, z3.BitVecVal(1, 1), z3.BitVecVal(0, 1)) for i in range(m)]
            return z3.Concat(*reversed(bits)) if m > 1 else bits[0]
        self.mask = {k: mask(k) for k in (1, 2, 3, 4)}
        self.n = hand.n()
        self.pairs = z3.Sum([z3.If(x == 2, z3.BitVecVal(1, 8), z3.BitVecVal(0, 8)) for x in c])
        self.trips = z3.Sum([z3.If(x == 3, z3.BitVecVal(1, 8), z3.BitVecVal(0, 8)) for x in c])
        self.quads = z3.Sum([z3.If(x == 4, z3.BitVecVal(1, 8), z3.BitVecVal(0, 8)) for x in c])
        self.distinct = z3.And(*[z3.ULE(x, 1) for x in c])
        self.only_own_ranks = z3.And(*[hand.c[i] == 0 for i in self.other]) if self.other else z3.BoolVal(True)
        # straights
        if rules['straights']:
            wins = []
            wheel = (1 << (m - 1)) | 0b1111
            wins.append((wheel, 0))
            for i in range(m - 5 + 1):
                wins.append((0b11111 << i, i + 1))
            self.is_straight = z3.And(self.distinct, z3.Or(*[self.mask[1] == z3.BitVecVal(w, m)
                                                              for w, _ in wins]))
            val = z3.BitVecVal(0, 8)
            for w, v in wins:
                val = z3.If(self.mask[1] == z3.BitVecVal(w, m), z3.BitVecVal(v, 8), val)
            self.straight_val = val
        else:
            self.is_straight = z3.BoolVal(False)
            self.straight_val = z3.BitVecVal(0, 8)

    def valid(self) -> Any:
        r, h = self.r, self.h
        size_ok = z3.Or(*[self.n == k for k in r['cards']])
        cons = [size_ok, self.only_own_ranks]
        if not r['paired']:
            cons.append(self.distinct)
        if r.get('badugi'):
            # rainbow: of distinct suits; a single card is "suited", 2+ rainbow cards are not
            cons.append(h.suited == (self.n == 1))
        elif r.get('single'):
            pass
        elif not r['flushes']:
            # no flushes: suitedness irrelevant (but suited sets cannot be paired)
            pass
        return z3.And(*cons)

    def cat(self) -> Any:
        """category id = position in CATS."""
        r, h = self.r, self
        cid = lambda name: z3.BitVecVal(CATS.index(name), 8)  # noqa: E731
        flush = z3.And(self.h.suited, self.n == 5) if r['flushes'] else z3.BoolVal(False)
        e = cid('HIGH_CARD')
        e = z3.If(self.pairs == 1, cid('ONE_PAIR'), e)
        e = z3.If(self.pairs == 2, cid('TWO_PAIR'), e)
        e = z3.If(self.trips == 1, cid('THREE_OF_A_KIND'), e)
        e = z3.If(z3.And(self.is_straight, z3.Not(flush)), cid('STRAIGHT'), e)
        e = z3.If(z3.And(flush, z3.Not(self.is_straight)), cid('FLUSH'), e)
        e = z3.If(z3.And(self.trips == 1, self.pairs == 1), cid('FULL_HOUSE'), e)
        e = z3.If(self.quads == 1, cid('FOUR_OF_A_KIND'), e)
        e = z3.If(z3.And(flush, self.is_straight), cid('STRAIGHT_FLUSH'), e)
        return e

    def cat_rank(self) -> Any:
        """position of the category in the type's own order (higher = better hand
        in the lookup's sense); badugi: more cards = lower index."""
        c = self.cat()
        e = z3.BitVecVal(0, 8)
        for pos, name in enumerate(self.r['order']):
            e = z3.If(c == CATS.index(name), z3.BitVecVal(pos, 8), e)
        return e

    def code(self) -> Any:
        """tie-break code inside a category: larger = higher hand (lookup order)."""
        m = self.m
        general = z3.Concat(self.mask[4], self.mask[3], self.mask[2], self.mask[1])
        st = z3.ZeroExt(4 * m - 8, self.straight_val) if 4 * m > 8 else self.straight_val
        code = z3.If(self.is_straight, st, general)
        if self.r.get('badugi') or self.r.get('opening'):
            # badugi: 4-card hands come first (lowest index), then 3, 2, 1: size dominates
            # openers: (category, size?) - see size_rank
            pass
        return code

    def full_code(self) -> Any:
        """(primary, secondary, tie-break) packed: unsigned order = rule order.
        badugi: more cards first (lower index); others: category, then size
        (size only differs for the stud openers, compared at equal size)."""
        if self.r.get('badugi'):
            primary = z3.BitVecVal(4, 8) - self.n
            secondary = z3.BitVecVal(0, 8)
        else:
            primary = self.cat_rank()
            secondary = self.n
        return z3.Concat(primary, secondary, self.code())


def solve(s: z3.Solver, timeout_s: float) -> tuple[str, float]:
    s.set('timeout', int(timeout_s * 1000))
    t = time.time()
    r = s.check()
    return str(r), time.time() - t


def decode(model: Any, hand: Sym, all_ranks: list) -> dict:
    counts = [model.eval(c, model_completion=True).as_long() for c in hand.c]
    suited = z3.is_true(model.eval(hand.suited, model_completion=True))
    return {'counts': counts, 'suited': suited, 'ranks': ''.join(
        str(all_ranks[i].value) * counts[i] for i in range(len(counts)))}


def cards_for(dec: dict) -> list | None:
    """concrete distinct cards realising a decoded class (None if impossible)."""
    from pokerkit.utilities import Card, Rank, Suit
    suits = [Suit.CLUB, Suit.DIAMOND, Suit.HEART, Suit.SPADE]
    ranks = dec['ranks']
    cards = []
    if dec['suited']:
        if len(set(ranks)) != len(ranks):
            return None
        return [Card(Rank(r), Suit.SPADE) for r in ranks]
    # not suited: use >= 2 suits, distinct cards
    used: dict = {}
    for i, r in enumerate(ranks):
        k = used.get(r, 0)
        used[r] = k + 1
        cards.append(Card(Rank(r), suits[k]))
    if len(cards) >= 2 and len({c.suit for c in cards}) == 1:
        # all got club: flip the last one to another suit
        cards[-1] = Card(cards[-1].rank, Suit.DIAMOND)
    if len(cards) <= 1:
        return None  # a single card is always suited
    return cards


def rainbow_cards_for(dec: dict) -> list | None:
    from pokerkit.utilities import Card, Rank, Suit
    suits = [Suit.CLUB, Suit.DIAMOND, Suit.HEART, Suit.SPADE]
    ranks = dec['ranks']
    if len(ranks) > 4:
        return None
    return [Card(Rank(r), suits[i]) for i, r in enumerate(ranks)]
