"""Bounded symbolic exploration of real Python code on top of CrossHair's
state space / tracer (crosshair-tool 0.0.110) and z3.

A *harness* is a plain function ``h(ctx, **params)``.  It asks ``ctx`` for
named symbolic inputs (``ctx.int``, ``ctx.bool``, ``ctx.choice``), drives the
real pokerkit code with them and calls ``ctx.fail`` when the property is
violated.  ``explore`` enumerates *all* feasible paths of the harness (the
search tree is CrossHair's: every branch on a symbolic value is decided by z3,
infeasible sides are pruned by ``unsat``), so

* ``confirmed``  = the tree was exhausted, every path ended without ``fail``
  and no path ended ``unknown``;
* ``refuted``    = z3 produced a model for a path that reaches ``ctx.fail``;
  the model is returned (and replayed natively by the caller);
* ``inconclusive`` = budget exhausted, solver ``unknown``, path time-out,
  unsupported operation or non-determinism.

The same harness runs natively with ``ConcreteCtx`` (values from a model) -
that is the replay / reachability twin.
"""
from __future__ import annotations

import sys
import time
import traceback
from collections import Counter
from typing import Any, Callable

import z3

import crosshair.core_and_libs  # noqa: F401  (registers patches)
from crosshair.core import Patched, proxy_for_type, suspected_proxy_intolerance_exception
from crosshair.statespace import (
    CallAnalysis,
    RootNode,
    StateSpace,
    StateSpaceContext,
    VerificationStatus,
)
from crosshair.tracers import COMPOSITE_TRACER, NoTracing, ResumedTracing, is_tracing
from crosshair.util import (
    CrossHairInternal,
    CrossHairValue,
    IgnoreAttempt,
    NotDeterministic,
    UnexploredPath,
)
import crosshair.opcode_intercept as _oi
import crosshair.fnutil as _fnutil

# --------------------------------------------------------------------------
# Stubs on the CrossHair side (see DESIGN.md "Stubs")

SYM_PLACEHOLDER = '<sym>'


def _install_format_stub() -> None:
    """f-strings of symbolic numbers produce a placeholder instead of
    realising the number (error/warning *texts* are outside every claim)."""
    FSV = _oi.FormatStashingValue
    if getattr(FSV, '_verif_patched', False):
        return
    o_str, o_fmt, o_repr = FSV.__str__, FSV.__format__, FSV.__repr__

    def is_sym(v: Any) -> bool:
        with NoTracing():
            from crosshair.libimpl.builtinslib import AnySymbolicStr
            return isinstance(v, CrossHairValue) and not isinstance(v, AnySymbolicStr)

    def __str__(self):  # type: ignore
        if is_sym(self.value):
            self.formatted = SYM_PLACEHOLDER
            return ''
        return o_str(self)

    def __format__(self, fmt):  # type: ignore
        if is_sym(self.value):
            self.formatted = SYM_PLACEHOLDER
            return ''
        return o_fmt(self, fmt)

    def __repr__(self):  # type: ignore
        if is_sym(self.value):
            self.formatted = SYM_PLACEHOLDER
            return ''
        return o_repr(self)

    FSV.__str__, FSV.__format__, FSV.__repr__ = __str__, __format__, __repr__
    FSV._verif_patched = True


def _install_fn_globals_guard() -> None:
    o = _fnutil.fn_globals
    if getattr(o, '_verif_patched', False):
        return

    def fn_globals(fn):  # type: ignore
        try:
            return o(fn)
        except ValueError:
            return getattr(fn, '__globals__', {})

    fn_globals._verif_patched = True  # type: ignore
    _fnutil.fn_globals = fn_globals


_install_format_stub()
_install_fn_globals_guard()


# --------------------------------------------------------------------------

class Viol(Exception):
    """The property is violated on this path."""

    def __init__(self, kind: str, detail: str = '') -> None:
        super().__init__(f'{kind}: {detail}')
        self.kind = kind
        self.detail = detail


class Known(BaseException):
    """The path hit a listed known finding (carved out of the claim)."""

    def __init__(self, fid: str) -> None:
        super().__init__(fid)
        self.fid = fid


def reraise_control(e: BaseException) -> None:
    """Call first in every ``except Exception`` of a harness."""
    if isinstance(e, (NotDeterministic, Viol)):
        raise e


class _BaseCtx:
    symbolic = False

    def __init__(self) -> None:
        self.covered: Counter = Counter()
        self.ops = 0
        self.trace: list = []
        self.preset: dict = {}
        self.env: dict = {}

    def constrain(self, exprs: Any) -> None:
        """Partition predicates: python expressions over the named inputs."""
        for e in exprs or ():
            self.assume(eval(e, {'__builtins__': {}}, self.env))

    def cover(self, key: str) -> None:
        self.covered[key] += 1

    def fail(self, kind: str, detail: Any = '') -> None:
        if callable(detail):
            try:
                detail = str(detail())
            except Exception as e:  # noqa
                reraise_control(e)
                detail = '<unprintable>'
        raise Viol(kind, _safe_str(detail))

    def known(self, fid: str) -> None:
        raise Known(fid)

    def check(self, cond: Any, kind: str, detail: Any = '') -> None:
        if not cond:
            self.fail(kind, detail)


def _safe_str(x: Any) -> str:
    with NoTracing():
        try:
            if isinstance(x, CrossHairValue):
                return SYM_PLACEHOLDER
            if callable(x):
                x = x()
            return str(x)[:2000]
        except BaseException:  # noqa
            return '<unprintable>'


class SymCtx(_BaseCtx):
    symbolic = True

    def __init__(self, space: StateSpace) -> None:
        super().__init__()
        self.space = space
        self.vars: dict[str, Any] = {}

    def _new(self, typ: type, name: str) -> Any:
        with NoTracing():
            if name in self.vars:
                raise CrossHairInternal(f'duplicate symbol {name}')
            v = proxy_for_type(typ, name + self.space.uniq())
            self.vars[name] = v
            return v

    def int(self, name: str, lo: int, hi: int) -> Any:
        if name in self.preset:
            self.env[name] = self.preset[name]
            return self.preset[name]
        with NoTracing():
            if name in self.vars:
                raise CrossHairInternal(f'duplicate symbol {name}')
            from crosshair.libimpl.builtinslib import SymbolicBoundedInt
            v = SymbolicBoundedInt(name + self.space.uniq(), int, lo, hi)
            self.vars[name] = v
        self.env[name] = v
        return v

    def bool(self, name: str) -> Any:
        if name in self.preset:
            self.env[name] = self.preset[name]
            return self.preset[name]
        with NoTracing():
            if name in self.vars:
                raise CrossHairInternal(f'duplicate symbol {name}')
            from crosshair.libimpl.builtinslib import SymbolicBool
            v = SymbolicBool(name + self.space.uniq(), bool)
            self.vars[name] = v
        self.env[name] = v
        return v

    def choice(self, name: str, n: int) -> int:
        """A concrete value in range(n), one path per feasible value (decided by
        the solver through the search tree; works with tracing on or off)."""
        if n <= 1:
            return 0
        if name in self.preset:
            self.env[name] = self.preset[name]
            return self.preset[name]
        v = self.int(name, 0, n - 1)
        with NoTracing():
            for k in range(n - 1):
                if self.space.choose_possible(v.var == k):
                    return k
            return n - 1

    def flag(self, name: str) -> bool:
        """A concrete bool, one path per value."""
        b = self.bool(name)
        if b is True or b is False:
            return b
        with NoTracing():
            return bool(self.space.choose_possible(b.var))

    def assume(self, cond: Any) -> None:
        if not cond:
            raise IgnoreAttempt('assume')

    def model(self, realize_objects: bool = False) -> dict[str, Any] | None:
        with NoTracing():
            if realize_objects:
                from crosshair.core import deep_realize
                robj = {}
                for name, v in self.vars.items():
                    if getattr(v, 'var', None) is None:
                        robj[name] = deep_realize(v)
            r = self.space.solver.check()
            if r != z3.sat:
                return None
            m = self.space.solver.model()
            out: dict[str, Any] = {}
            for name, v in self.vars.items():
                var = getattr(v, 'var', None)
                if var is None:
                    if realize_objects:
                        out[name] = robj[name]
                    continue
                val = m.eval(var, model_completion=True)
                if z3.is_string_value(val):
                    out[name] = val.as_string()
                elif z3.is_int_value(val):
                    out[name] = val.as_long()
                elif z3.is_true(val):
                    out[name] = True
                elif z3.is_false(val):
                    out[name] = False
                else:
                    out[name] = str(val)
            return out


class MissingValue(Exception):
    pass


class ConcreteCtx(_BaseCtx):
    """Native execution with the values of a model (replay / twin)."""

    def __init__(self, values: dict[str, Any]) -> None:
        super().__init__()
        self.values = values
        self.used: dict[str, Any] = {}

    def _get(self, name: str, default: Any) -> Any:
        if name in self.values:
            v = self.values[name]
        else:
            v = default
        self.used[name] = v
        return v

    def int(self, name: str, lo: int, hi: int) -> int:
        v = self.preset[name] if name in self.preset else self._get(name, lo)
        if not lo <= v <= hi:
            raise MissingValue(f'{name}={v} outside [{lo},{hi}]')
        self.env[name] = v
        return v

    def bool(self, name: str) -> bool:
        v = self.preset[name] if name in self.preset else bool(self._get(name, False))
        self.env[name] = v
        return v

    def choice(self, name: str, n: int) -> int:
        if n <= 1:
            return 0
        return self.int(name, 0, n - 1)

    def flag(self, name: str) -> bool:
        return self.bool(name)

    def assume(self, cond: Any) -> None:
        if not cond:
            raise MissingValue('assumption false on replay')


# --------------------------------------------------------------------------

class Result(dict):
    pass


def explore(
        harness: Callable[..., None],
        params: dict[str, Any],
        *,
        budget_s: float,
        per_path_s: float = 60.0,
        max_paths: int = 10 ** 9,
        n_samples: int = 3,
        traced: bool = True,
) -> Result:
    """Enumerate the feasible paths of ``harness(ctx, **params)``."""
    t0 = time.process_time()
    w0 = time.time()
    deadline = t0 + budget_s
    params = dict(params)
    preset = params.pop('_preset', {})
    root = RootNode()
    stats: Counter = Counter()
    covered: Counter = Counter()
    known: Counter = Counter()
    samples: list = []
    unknown_reasons: Counter = Counter()
    result = Result(status='inconclusive', reason='budget')
    decisions = 0
    ops = 0
    exhausted = False
    with Patched():
        for it in range(1, max_paths + 1):
            start = time.process_time()
            if start > deadline:
                result['reason'] = f'budget {budget_s}s exhausted after {it - 1} paths'
                break
            space = StateSpace(
                execution_deadline=start + per_path_s,
                model_check_timeout=per_path_s / 2,
                search_root=root,
            )
            status: VerificationStatus | None
            viol: Viol | None = None
            model = None
            ctx = None
            try:
                with StateSpaceContext(space), COMPOSITE_TRACER, NoTracing():
                    ctx = SymCtx(space)
                    ctx.preset = preset
                    try:
                        if traced:
                            with ResumedTracing():
                                harness(ctx, **params)
                        else:
                            # all data concrete, only choices symbolic: run the real code
                            # natively, the solver still decides every choice
                            harness(ctx, **params)
                        status = VerificationStatus.CONFIRMED
                        if len(samples) < n_samples:
                            m = ctx.model()
                            if m is not None:
                                samples.append(m)
                    except Viol as v:
                        viol = v
                        if traced:
                            with ResumedTracing():
                                space.detach_path()
                        model = ctx.model(realize_objects=traced)
                        status = VerificationStatus.REFUTED
                    except Known as k:
                        known[k.fid] += 1
                        status = None
                    except IgnoreAttempt:
                        status = None
                    except UnexploredPath as e:
                        unknown_reasons[type(e).__name__] += 1
                        status = VerificationStatus.UNKNOWN
                    except NotDeterministic:
                        raise
                    except CrossHairInternal:
                        raise
                    except Exception as e:  # harness-level surprise
                        if suspected_proxy_intolerance_exception(e):
                            unknown_reasons['proxy-intolerance'] += 1
                            status = VerificationStatus.UNKNOWN
                        else:
                            viol = Viol('harness-exception', f'{type(e).__name__}: {_safe_str(e)}')
                            result['traceback'] = traceback.format_exc()[-3000:]
                            if traced:
                                with ResumedTracing():
                                    space.detach_path()
                            model = ctx.model(realize_objects=traced)
                            status = VerificationStatus.REFUTED
            except NotDeterministic as e:
                result.update(status='inconclusive', reason='NotDeterministic: ' + _safe_str(e),
                              traceback=traceback.format_exc()[-3000:])
                break
            except CrossHairInternal as e:
                result.update(status='inconclusive', reason='CrossHairInternal: ' + _safe_str(e),
                              traceback=traceback.format_exc()[-3000:])
                break
            stats[str(status)] += 1
            decisions += len(space.choices_made)
            hc = sys.modules.get('harness.common')
            if hc is not None:
                ops += hc.OPS_EXECUTED[0]
                hc.OPS_EXECUTED[0] = 0
            elif ctx is not None:
                ops += ctx.ops
            if ctx is not None and status == VerificationStatus.CONFIRMED:
                covered.update(ctx.covered)
            top, exhausted = space.bubble_status(CallAnalysis(status))
            if status == VerificationStatus.REFUTED:
                assert viol is not None
                result.update(status='refuted', kind=viol.kind, detail=viol.detail,
                              model=model, reason='counterexample')
                break
            if exhausted:
                if stats[str(VerificationStatus.UNKNOWN)]:
                    result.update(status='inconclusive',
                                  reason='paths ended unknown: ' + repr(dict(unknown_reasons)))
                elif not stats[str(VerificationStatus.CONFIRMED)]:
                    result.update(status='inconclusive', reason='vacuous: no path reached the end')
                else:
                    result.update(status='confirmed', reason='search tree exhausted')
                break
        else:
            result['reason'] = 'max_paths'
    result.update(
        paths=sum(stats.values()),
        paths_by_status=dict(stats),
        decisions=decisions,
        ops=ops,
        covered=dict(covered),
        known_hits=dict(known),
        samples=samples,
        exhausted=bool(exhausted),
        cpu_s=round(time.process_time() - t0, 2),
        wall_s=round(time.time() - w0, 2),
    )
    return result


def run_native(harness: Callable[..., None], params: dict[str, Any],
               values: dict[str, Any]) -> dict[str, Any]:
    """Replay natively (no tracer, no solver)."""
    assert not is_tracing()
    params = dict(params)
    ctx = ConcreteCtx(values)
    ctx.preset = params.pop('_preset', {})
    out: dict[str, Any] = {'values': values}
    try:
        harness(ctx, **params)
        out['outcome'] = 'pass'
    except Viol as v:
        out.update(outcome='viol', kind=v.kind, detail=v.detail)
    except Known as k:
        out.update(outcome='known', fid=k.fid)
    except MissingValue as e:
        out.update(outcome='mismatch', detail=str(e))
    except Exception as e:
        out.update(outcome='viol', kind='harness-exception',
                   detail=f'{type(e).__name__}: {e}', traceback=traceback.format_exc()[-3000:])
    out['covered'] = dict(ctx.covered)
    out['trace'] = ctx.trace[-200:]
    out['used'] = ctx.used
    return out


def _symctx_str(self: SymCtx, name: str, length: int) -> Any:
    """symbolic text of the given length."""
    if name in self.preset:
        self.env[name] = self.preset[name]
        return self.preset[name]
    v = self._new(str, name)
    self.assume(len(v) == length)
    self.env[name] = v
    return v


def _symctx_model_str(v: Any) -> Any:
    return v


SymCtx.str = _symctx_str  # type: ignore


def _cctx_str(self: ConcreteCtx, name: str, length: int) -> str:
    v = self.preset[name] if name in self.preset else self._get(name, 'A' * length)
    if len(v) != length:
        raise MissingValue(f'{name} wrong length')
    self.env[name] = v
    return v


ConcreteCtx.str = _cctx_str  # type: ignore
