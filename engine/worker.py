"""Run ONE job in this process and print its result as JSON on the last line.

usage: python3-vt -m engine.worker   (job spec as JSON on stdin)
"""
from __future__ import annotations

import importlib
import json
import os
import sys
import time
import traceback
import warnings


def main() -> None:
    job = json.load(sys.stdin)
    sys.setrecursionlimit(10000)
    t0 = time.time()
    out: dict = {'name': job['name'], 'kind': job.get('kind', 'symex')}
    try:
        mod = importlib.import_module(job['module'])
        fn = getattr(mod, job['fn'])
        params = job.get('params', {})
        kind = job.get('kind', 'symex')
        if kind == 'symex':
            from engine.symex import explore, run_native
            warnings.simplefilter(job.get('warnings', 'ignore'))
            r = explore(fn, params, budget_s=job['budget_s'],
                        per_path_s=job.get('per_path_s', 60.0),
                        n_samples=job.get('n_samples', 2), traced=job.get('traced', True))
            out.update(r)
            # reachability: required assertion sites must have fired
            missing = [k for k in job.get('must_cover', []) if not r['covered'].get(k)]
            if r['status'] == 'confirmed' and missing:
                out.update(status='inconclusive', reason=f'vacuous: never covered {missing}')
            # native twins of sample paths (harness reaches its end natively too)
            twins = []
            for m in r.get('samples', []):
                t = run_native(fn, params, m)
                twins.append({'values': m, 'outcome': t['outcome'], 'covered': t['covered']})
                if t['outcome'] != 'pass':
                    out.update(status='harness-error',
                               reason=f'native twin of a confirmed path does not pass: {t}')
            out['twins'] = twins
            if r['status'] == 'refuted':
                rep = run_native(fn, params, r['model'] or {})
                out['replay'] = rep
                if rep['outcome'] == 'viol':
                    out['status'] = 'violation'
                elif rep['outcome'] == 'known':
                    out['status'] = 'inconclusive'
                    out['reason'] = 'counterexample replays into a known finding'
                else:
                    out['status'] = 'harness-error'
                    out['reason'] = 'counterexample does not reproduce natively'
        elif kind == 'native':
            # concrete job: fn(params) -> dict(status=..., ...)
            warnings.simplefilter(job.get('warnings', 'ignore'))
            out.update(fn(**params))
        else:
            raise ValueError(f'unknown job kind {kind}')
    except BaseException as e:  # noqa
        out.update(status='harness-error', reason=f'{type(e).__name__}: {e}',
                   traceback=traceback.format_exc()[-4000:])
    out['job_wall_s'] = round(time.time() - t0, 2)
    sys.stdout.write('\n@@RESULT@@' + json.dumps(out, default=str) + '\n')
    sys.stdout.flush()


if __name__ == '__main__':
    main()
