"""C01 - chips are conserved, nothing negative, payoffs zero-sum.

Real code executed symbolically: State.__post_init__ and every operation the
shapes reach (ante/blind/bring-in posting, bet collection, fold, check/call,
complete/bet/raise, pots, pushing, pulling, divmod, rake).  Monitor assertion
after EVERY logged operation (State._update wrapped at run time)."""
from __future__ import annotations

from typing import Any

from harness import common as C
from harness.drive import cfg_standard, drive, finish

META = {
    'explanation': (
        'Bounded symbolic model checking of the real State code: starting stacks, antes, '
        'blinds/bring-in, bet sizes and every raise amount are z3 integers; CrossHair explores '
        'every feasible path of constructor + shape; after every logged operation the monitor '
        'asserts stacks+bets+pots == starting total, all parts >= 0; at the end: nothing left '
        'on the table, payoff == stack delta, sum(payoffs) == -raked.'),
    'functions': [
        'State.__post_init__', 'State.post_ante', 'State.collect_bets',
        'State.post_blind_or_straddle', 'State.post_bring_in', 'State.fold',
        'State.check_or_call', 'State.complete_bet_or_raise_to', 'State.pots',
        'State.total_pot_amount', 'State._begin_chips_pushing', 'State.push_chips',
        'State.pull_chips', 'State.get_effective_ante', 'State.get_effective_blind_or_straddle',
        'utilities.divmod', 'utilities.rake', 'utilities.clean_values'],
    'assumptions': [
        'chip type = Python int (mathematical integers); Fraction/float/Decimal chips outside the claim',
        'deck order concrete (shuffle stubbed: identity / VERIF_SEED rotation); cards concrete, '
        'hand evaluation of concrete cards runs natively',
        'text of error/warning messages not checked (format of symbolic numbers stubbed)',
        'warnings ignored (cash-game folds without a bet are performed)',
        'known finding F1 (cash-game side pot abandoned by all its contenders) carved out by its identifying predicate',
    ],
    'bounds': {
        'quick': 'variants x n in {2,3}; standard blind/ante or ante/bring-in layout with symbolic amounts, '
                 'stacks >= 1 (short stacks included); depth = symbolic player decisions then check/call-down to the end',
        'thorough': 'as quick with depth 2 (n=3) / 3 (heads-up), per-player antes with trimming on/off, integer rake',
    },
    'outside': 'histories whose first <depth> decisions are followed by anything but check/call-down; n > 4; non-int chips; custom divmod',
}


def h_standard(ctx: Any, code: str, n: int, depth: int, mode: str = 'T',
               trim: bool = True, deck: str = 'identity', do_finish: bool = True,
               rake_d: int = 0, boards: int = 1, ante_kind: str = 'uniform',
               part: Any = None, concrete_blinds: bool = False) -> None:
    C.native_hands()
    C.set_deck_order(deck)
    cfg = cfg_standard(ctx, code, n, mode=mode, trim=trim, rake_d=rake_d, boards=boards,
                       ante_kind=ante_kind, concrete_blinds=concrete_blinds)
    ctx.constrain(part)
    C.set_monitor(C.conservation_monitor(ctx))
    try:
        try:
            st = C.make_state(code, cfg)
        except Exception as e:
            C.reraise_control(e)
            ctx.fail('constructor-raised', f'{type(e).__name__}: {e}')
        ctx.cover('constructed')
        C.check_conservation(ctx, st, 'after-construction')
        drive(ctx, st, depth)
        if do_finish:
            finish(ctx, st)
        if not st.status:
            C.check_terminal(ctx, st)
            ctx.cover('terminal')
    finally:
        C.set_monitor(None)


def h_library_rake(ctx: Any, code: str, n: int, depth: int, percentage: float, cap: Any, stacks: Any,
                   no_flop_no_drop: bool = False, deck: str = 'identity', chips: str = 'int', boards: int = 1) -> None:
    """the library's own rake helper (percentage, cap, no-flop-no-drop) inside real hands: chips concrete, the
    first <depth> decisions symbolic (fold / call / min raise / max raise), conservation after every operation."""
    import warnings
    from functools import partial
    from math import inf
    from pokerkit.state import Mode
    from pokerkit.utilities import rake
    C.native_hands()
    C.set_deck_order(deck)
    warnings.simplefilter('ignore')
    from fractions import Fraction
    conv = (lambda x: Fraction(x)) if chips == 'fraction' else (lambda x: x)
    cfg: dict = dict(n=n, stacks=tuple(conv(x) for x in stacks), antes=conv(1), mode=Mode.CASH_GAME,
                     starting_board_count=boards)
    if percentage:
        cfg['rake'] = partial(rake, percentage=percentage, cap=inf if cap is None else cap,
                              no_flop_no_drop=no_flop_no_drop)
    if C.is_stud(code):
        cfg.update(bring_in=conv(1), small_bet=conv(2), big_bet=conv(4))
    else:
        cfg['blinds'] = (conv(1), conv(2))
        if C.uses_small_big(code):
            cfg.update(small_bet=conv(2), big_bet=conv(4))
        else:
            cfg['min_bet'] = conv(2)
    C.set_monitor(C.conservation_monitor(ctx))
    try:
        st = C.call(ctx, C.make_state, code, cfg)
        k = 0
        guard = 0
        while st.status and (st.actor_index is not None or st.stander_pat_or_discarder_index is not None):
            guard += 1
            ctx.check(guard < 200, 'no-termination')
            if st.stander_pat_or_discarder_index is not None:
                C.call(ctx, st.stand_pat_or_discard)
            elif st.can_post_bring_in():
                C.call(ctx, st.post_bring_in)
            else:
                c = ctx.choice(f'k{guard}', 4) if k < depth else 1
                k += 1
                if c == 0 and st.can_fold():
                    C.call(ctx, st.fold)
                elif c >= 2 and st.can_complete_bet_or_raise_to():
                    x = (st.min_completion_betting_or_raising_to_amount if c == 2
                         else st.max_completion_betting_or_raising_to_amount)
                    C.call(ctx, st.complete_bet_or_raise_to, x)
                else:
                    C.call(ctx, st.check_or_call)
        ctx.check(not st.status, 'not-terminal')
        C.check_terminal(ctx, st)
        raked = sum(p.raked_amount for p in st.pots)
        if raked:
            ctx.cover('raked')
        if any(getattr(x, 'denominator', 1) != 1 for x in st.stacks):
            ctx.cover('fractional-share')
        if cap is not None and any(p.raked_amount == cap for p in st.pots):
            ctx.cover('cap-binds')
        ctx.cover('terminal')
    finally:
        C.set_monitor(None)


def jobs(tier: str, seed: int) -> list[dict]:
    from engine.partition import weak_orders, tri, zero, product
    out = []
    deck = 'identity' if not seed else f'rot{seed % 52}'
    button = ['NT', 'FT', 'NS', 'PO', 'FO8', 'N2L1D', 'F2L3D', 'FB', 'NR']
    stud = ['F7S', 'F7S8', 'FR']
    mc = ['constructed', 'terminal']
    B = 520 if tier == 'quick' else 1800
    slow = {'PO': 9, 'NT': 8, 'NR': 8, 'FO8': 8, 'FT': 7}
    for code in button + stud:
        if code == 'NR' and tier == 'quick':
            continue    # same code path as NT (only the deck differs): thorough tier
        out.append(dict(name=f'a/{code}/n2/d1/T', fn='h_standard',
                        params=dict(code=code, n=2, depth=1, mode='T', deck=deck),
                        budget_s=B, must_cover=mc, prio=slow.get(code, 3)))
    for k, part in enumerate(weak_orders(['s0', 's1', 's2'])):
        out.append(dict(name=f'a/NT/n3/d0/T/w{k}', fn='h_standard',
                        params=dict(code='NT', n=3, depth=0, mode='T', deck=deck, part=part),
                        budget_s=B, must_cover=mc))
    for k in range(3):
        out.append(dict(name=f'a/NT/n2/d2/C/k{k}', fn='h_standard',
                        params=dict(code='NT', n=2, depth=2, mode='C', deck=deck,
                                    ante_kind='none', _preset={'d0_k': k}),
                        budget_s=B, must_cover=mc, prio=10 if k == 2 else 2))
    # n=3 with one symbolic decision (fold / call / raise x): blinds 1/2 concrete, stacks symbolic
    for code in ('NT', 'F7S'):
        for k in range(3 if code == 'NT' else 2):
            pre = {'d0_k': k} if code == 'NT' else {'d0_bring': bool(k)}
            parts = [[c] for c in tri('s1', 's2')] if (code == 'NT' and k == 2) else [None]
            for pi, part in enumerate(parts):
                out.append(dict(name=f'a/{code}/n3/d1/T/concrete-blinds/k{k}' + ('' if part is None else f'/p{pi}'),
                                fn='h_standard',
                                params=dict(code=code, n=3, depth=1, mode='T', deck=deck, ante_kind='none',
                                            concrete_blinds=True, _preset=pre, part=part),
                                budget_s=B, must_cover=mc, prio=9))
    # (d) integer rake, (b) per-player antes with trimming off
    out.append(dict(name='d/NT/n2/d1/rake10', fn='h_standard',
                    params=dict(code='NT', n=2, depth=1, mode='C', deck=deck, rake_d=10,
                                ante_kind='none'),
                    budget_s=B, must_cover=mc))
    for name, kw in (('NT/n2/10pct-cap3', dict(code='NT', n=2, depth=4, percentage=0.1, cap=3, stacks=(100, 100))),
                     ('NT/n3/5pct-cap2', dict(code='NT', n=3, depth=3, percentage=0.05, cap=2, stacks=(100, 40, 100))),
                     ('PO/n2/10pct-nocap-noflopnodrop', dict(code='PO', n=2, depth=3, percentage=0.1, cap=None,
                                                             stacks=(100, 100), no_flop_no_drop=True)),
                     ('F7S/n2/10pct-cap1', dict(code='F7S', n=2, depth=3, percentage=0.1, cap=1, stacks=(40, 40)))):
        out.append(dict(name=f'd/library-rake/{name}', fn='h_library_rake', traced=False, params=dict(kw, deck=deck),
                        budget_s=B, must_cover=['terminal', 'raked'] + (['cap-binds'] if kw['cap'] else [])))
    # Fraction chips (exact): pots split over two boards / ties leave fractional shares (non-integral divmod branch)
    for name, kw in (('PO/n2/2boards', dict(code='PO', n=2, depth=3, percentage=0, cap=None, stacks=(51, 51), boards=2)),
                     ('NT/n3/2boards', dict(code='NT', n=3, depth=2, percentage=0, cap=None, stacks=(51, 20, 51), boards=2)),
                     ('FO8/n2', dict(code='FO8', n=2, depth=3, percentage=0, cap=None, stacks=(51, 51)))):
        out.append(dict(name=f'e/fraction-chips/{name}', fn='h_library_rake', traced=False,
                        params=dict(kw, deck=deck, chips='fraction'), budget_s=B, must_cover=['terminal']))
    for dk in ('stride7', 'reversed', 'rot13'):
        out.append(dict(name=f'e/fraction-chips/PO/n2/2boards/{dk}', fn='h_library_rake', traced=False,
                        params=dict(code='PO', n=2, depth=2, percentage=0, cap=None, stacks=(51, 51), boards=2, deck=dk,
                                    chips='fraction'), budget_s=B, must_cover=['terminal']))
    for trim in ((False,) if tier == 'quick' else (True, False)):
        for k, part in enumerate(product(tri('ante0', 'ante1'), tri('s0', 's1'))):
            out.append(dict(name=f'b/NT/n2/d0/perplayer-antes/trim{int(trim)}/p{k}', fn='h_standard',
                            params=dict(code='NT', n=2, depth=0, mode='T', deck=deck, trim=trim,
                                        ante_kind='per-player', part=part),
                            budget_s=B, must_cover=mc, prio=4))
    # (c) all-in cascade with SYMBOLIC hand strengths: every winner / tie / odd-chip pattern of push_chips
    for k, part in enumerate(weak_orders(['s0', 's1', 's2'])):
        if tier == 'quick' and k not in (0, 3, 6, 9, 12):
            continue
        out.append(dict(name=f'c/allin/n3/hilo/symbolic-strengths/w{k}', module='harness.c02', fn='h_showdown',
                        params=dict(n=3, depth=0, shape='allin', hilo=True, deck=deck, levels=2, lo_levels=1,
                                    part=part, conserve=True),
                        budget_s=B, must_cover=['terminal'], prio=7))
    B = 400 if tier == 'quick' else 1200
    if tier == 'thorough':
        for code in ('NT', 'PO', 'F7S', 'N2L1D'):
            for k, part in enumerate(weak_orders(['s0', 's1', 's2'])):
                out.append(dict(name=f'a/{code}/n3/d1/T/w{k}', fn='h_standard',
                                params=dict(code=code, n=3, depth=1, mode='T', deck=deck, part=part),
                                budget_s=B, must_cover=mc))
        for code in ('NT', 'F7S'):
            for k in range(3):
                for k1 in range(3):
                    out.append(dict(name=f'a/{code}/n2/d3/C/k{k}{k1}', fn='h_standard',
                                    params=dict(code=code, n=2, depth=3, mode='C', deck=deck,
                                                _preset={'d0_k': k, 'd1_k': k1}),
                                    budget_s=B, must_cover=mc))
    return out
