"""C02 - every pot goes to the best eligible live hand(s), right amounts.

Real code: betting, bet collection, State.pots, showdown, hand killing,
_begin_chips_pushing, push_chips, pull_chips, Hand.__eq__/__lt__ (real
comparison operators on the parametric evaluator)."""
from __future__ import annotations

from typing import Any

from harness import common as C
from harness.drive import MAXCHIP, decide, at_decision, finish
from harness.oracle import NoRule, award, side_pots
from harness.symhand import make_symhand
from pokerkit.state import ChipsPushing, Mode, Opening, Street

META = {
    'explanation': (
        'Parametric evaluator: State.hand_types is a user Hand subclass whose strength per card set is a z3 '
        'integer (monotone in the card set; optional "no qualifying hand"), so every deal of every game is '
        'covered by one symbolic run. Stacks and raise amounts are symbolic too. The whole engine runs to the '
        'end; every ChipsPushing record and the final payoffs are compared with an independent side-pot oracle '
        'written from the statement (levels, eligibility, merge, even split over boards / hand types with a '
        'contender / winners, odd chips to first board, first type, earliest position).'),
    'functions': ['State.pots', 'State.collect_bets', 'State._begin_chips_pushing', 'State.push_chips',
                  'State.pull_chips', 'State.get_up_hands', 'State.can_win_now',
                  'State.show_or_muck_hole_cards', 'State.kill_hand', 'Hand.__eq__', 'Hand.__lt__',
                  'utilities.max_or_none', 'utilities.divmod', 'betting operations'],
    'assumptions': [
        'evaluator abstracted to an arbitrary monotone strength function (C04/C05 cover the real evaluators)',
        'contributions are read from the engine (starting stack - stack when pushing starts); C01 covers their conservation',
        'concrete deck order, int chips, all automations on',
        'eligible set = players still in the hand when pushing starts (automatic mucking is C12)',
    ],
    'bounds': {
        'quick': 'mini hold\'em (2 hole + 3 board, two betting rounds), blinds (1,2), n=3 single type depth 3; '
                 'n=2 hi+lo depth 2; n=3 hi+lo all-in shape; symbolic stacks >= 1, symbolic raise amounts, '
                 'strength levels = n',
        'thorough': 'n=4 single type; n=3 hi+lo depth 3; two boards; cash-game mode',
    },
    'outside': 'n > 4, > 2 boards, > 2 hand types, histories beyond the decision depth (then check/call-down)',
}


def mini_streets(min_bet: Any, hole: int = 2) -> tuple:
    return (
        Street(False, (False,) * hole, 0, False, Opening.POSITION, min_bet, None),
        Street(True, (), 3, False, Opening.POSITION, min_bet, None),
    )


def _fold_name(asked: dict, i: int) -> str:
    # a seat can be asked again (a short opening shove re-opened by a bigger call is not a raise, but a
    # second betting round can follow when nobody is all-in yet): keep the symbol names unique
    asked[i] = asked.get(i, 0) + 1
    return f'fold{i}' if asked[i] == 1 else f'fold{i}x{asked[i]}'


def h_showdown(ctx: Any, n: int, depth: int, hilo: bool = False, boards: int = 1,
               mode: str = 'T', shape: str = 'free', deck: str = 'identity',
               levels: int = 0, trim: bool = True, ante: int = 0, part: Any = None,
               lo_levels: int = 0, conserve: bool = False, fixed: Any = None) -> None:
    C.set_deck_order(deck)
    levels = levels or n
    types: tuple = (make_symhand(ctx, 'H', False, levels),)
    if hilo:
        types += (make_symhand(ctx, 'L', True, lo_levels or levels, allow_none=True),)
    fixed = fixed or {}
    stacks = tuple(fixed[str(i)] if str(i) in fixed else ctx.int(f's{i}', 1, MAXCHIP) for i in range(n))
    ctx.constrain(part)
    cfg = dict(n=n, stacks=stacks, blinds=(1, 2), min_bet=2, antes=ante,
               ante_trimming_status=trim,
               mode=Mode.TOURNAMENT if mode == 'T' else Mode.CASH_GAME,
               streets=mini_streets(2), hand_types=types, starting_board_count=boards)
    snap: dict = {}
    pushes: list = []
    folded: list = []
    dealt: dict = {i: [] for i in range(n)}
    before_collection: list = []

    def mon(state: Any, op: Any) -> None:
        ctx.ops += 1
        if type(op).__name__ == 'Folding':
            folded.append(op.player_index)
        elif type(op).__name__ == 'HoleDealing':
            dealt[op.player_index].extend(op.cards)
        if conserve:
            C.check_conservation(ctx, state, type(op).__name__)     # C01 monitor on every deal at once
        if type(op).__name__ == 'BetCollection' and before_collection:
            # independent rule for the uncalled part of a bet: only what exceeds the second-highest bet of ANYBODY
            # (a folder's abandoned bet included) goes back; everything else that was wagered is collected
            b = before_collection[-1]
            alive = [i for i in range(n) if state.statuses[i]]
            cap = sorted(b)[-2]
            ranked = state.street is not None or state.ante_trimming_status
            for i in range(n):
                if len(alive) == 1 and i == alive[0]:
                    exp_i = 0           # the lone survivor's own bet never enters a pot
                else:
                    exp_i = b[i] if not ranked or b[i] <= cap else cap
                ctx.check(op.bets[i] == exp_i, 'collected-bet-differs-from-the-called-part',
                          lambda: f'player {i}: bets before {b}, collected {op.bets}')
            ctx.cover('collected')
        before_collection.append(list(state.bets))
        if isinstance(op, ChipsPushing):
            if not snap:
                snap['live'] = list(state.statuses)
                snap['contrib'] = [state.starting_stacks[i] - state.stacks[i]
                                   - (state.bets[i] - op.amounts[i])
                                   for i in state.player_indices]
                snap['front'] = [state.bets[i] - op.amounts[i] for i in state.player_indices]
                snap['holes'] = [tuple(h) for h in state.hole_cards]
                snap['boards'] = [tuple(state.get_board_cards(b)) for b in state.board_indices]
            pushes.append((op.pot_index, op.board_index, op.hand_type_index, tuple(op.amounts)))

    C.set_monitor(mon)
    try:
        st = C.call(ctx, C.make_state, 'NT', cfg)
        if shape == 'allin':
            # first actor shoves, everybody else calls or folds by a symbolic bit
            first = True
            asked: dict = {}
            while at_decision(st):
                if first:
                    first = False
                    if st.can_complete_bet_or_raise_to(st.max_completion_betting_or_raising_to_amount):
                        C.call(ctx, st.complete_bet_or_raise_to,
                               st.max_completion_betting_or_raising_to_amount)
                    else:
                        C.call(ctx, st.check_or_call)
                elif st.can_fold() and ctx.flag(_fold_name(asked, st.actor_index)):
                    C.call(ctx, st.fold)
                else:
                    C.call(ctx, st.check_or_call)
        elif shape == 'brf':
            # first actor bets/raises x, the next calls (possibly all-in for less), the third raises y, the first folds
            acts = ['r', 'c', 'r', 'f']
            k = 0
            first_actor = st.actor_index
            while at_decision(st) and k < len(acts):
                a = acts[k]
                k += 1
                if a == 'r':
                    x = ctx.int(f'x{k}', 0, 2 * MAXCHIP)
                    if st.can_complete_bet_or_raise_to(x):
                        C.call(ctx, st.complete_bet_or_raise_to, x)
                        ctx.cover('raised')
                    else:
                        C.call(ctx, st.check_or_call)
                elif a == 'f' and st.actor_index == first_actor and st.can_fold():
                    C.call(ctx, st.fold)
                    ctx.cover('dead-money')
                else:
                    C.call(ctx, st.check_or_call)
            finish(ctx, st)
        else:
            for step in range(depth):
                if not at_decision(st):
                    break
                decide(ctx, st, f'd{step}')
            finish(ctx, st)
        ctx.check(not st.status, 'not-terminal')
        if conserve:
            C.check_terminal(ctx, st)
            ctx.cover('terminal')
        ctx.check(bool(snap), 'no-push-recorded')
        live, contrib = snap['live'], snap['contrib']
        n_live = sum(1 for x in live if x)
        total_in = 0
        for c in contrib:
            total_in += c
        if n_live == 1 and sum(1 for i in range(n) if i not in folded) == 1:
            # everybody else FOLDED (a hand mucked or killed at the showdown is judged by the oracles below)
            ctx.cover('lone-survivor')
            w = live.index(True)
            for i in range(n):
                exp = (total_in - contrib[w]) if i == w else -contrib[i]
                ctx.check(st.payoffs[i] == exp, 'lone-survivor-payoff', i)
            return
        ctx.cover('showdown')
        for i in range(n):
            ctx.check(snap['front'][i] == 0, 'bets-not-collected-before-push')
        dead = 0
        lv_contrib = list(contrib)
        if not trim and ante:
            for i in range(n):
                a = st.get_effective_ante(i)
                dead += a
                lv_contrib[i] = contrib[i] - a
        pots = side_pots(lv_contrib, live, dead)
        for amount, elig in pots:
            if not elig:
                ctx.known('F1')

        def strength(i: int, b: int, t: int) -> Any:
            return types[t].lookup.strength(snap['holes'][i] + snap['boards'][b])

        try:
            win, exp_pushes = award(pots, n, len(snap['boards']), len(types), strength)
        except NoRule:
            ctx.assume(False)
        if len(pots) > 1:
            ctx.cover('side-pot')
        # compare what every player receives from every pot (summed over boards and
        # hand types: the statement fixes amounts, not the granularity of the records)
        def per_pot(ps: list) -> dict:
            d: dict = {}
            for pi, b, t, amounts in ps:
                row = d.setdefault(pi, [0] * n)
                for i in range(n):
                    row[i] = row[i] + amounts[i]
            return d
        eng, ora = per_pot(pushes), per_pot(exp_pushes)
        ctx.check(sorted(eng) == sorted(ora), 'pot-set',
                  lambda: f'engine {pushes} oracle {exp_pushes}')
        for pi in ora:
            for i in range(n):
                ctx.check(eng[pi][i] == ora[pi][i], 'pot-award',
                          lambda: f'pot {pi} player {i}: engine {pushes} oracle {exp_pushes}')
        for g in pushes if n_live > 1 else []:     # (a single tabled hand left: one record per pot, no board/type)
            ctx.check(g[1] is not None and 0 <= g[1] < len(snap['boards'])
                      and g[2] is not None and 0 <= g[2] < len(types), 'push-index')
        for i in range(n):
            ctx.check(st.payoffs[i] == win[i] - contrib[i], 'final-payoff', i)
            if not live[i]:
                ctx.check(win[i] == 0, 'dead-hand-wins')
        # second oracle: every player who did not fold tables his hand (a hand that holds a best hand
        # somewhere must not have been mucked or killed) - see C12 for the two-pass construction
        from harness.oracle import contenders
        in_hand = [i not in folded for i in range(n)]

        def strength2(i: int, b: int, t: int) -> Any:
            return types[t].lookup.strength(tuple(dealt[i]) + snap['boards'][b])
        pots1 = side_pots(lv_contrib, in_hand, dead)
        if all(e for _, e in pots1):
            cont = contenders(pots1, n, len(snap['boards']), len(types), strength2)
            for i in range(n):
                if in_hand[i] and cont[i]:
                    ctx.check(live[i], 'hand-that-holds-a-best-hand-was-mucked-or-killed', lambda: f'player {i}')
            pots2 = side_pots(lv_contrib, [in_hand[i] and cont[i] for i in range(n)], dead)
            try:
                win2, _ = award(pots2, n, len(snap['boards']), len(types), strength2)
                conds = [st.payoffs[i] == win2[i] - contrib[i] for i in range(n)]
                if not C.all_true(conds):
                    ctx.fail('payoffs-differ-from-everybody-shows', lambda: f'payoffs {st.payoffs} oracle {win2} contrib {contrib}')
            except NoRule:
                pass
    finally:
        C.set_monitor(None)


def jobs(tier: str, seed: int) -> list[dict]:
    from engine.partition import weak_orders, tri
    deck = 'identity' if not seed else f'rot{seed % 52}'
    out = []
    mc = ['showdown']
    names3 = ['s0', 's1', 's2']
    B = 400 if tier == 'quick' else 1500
    for k, part in enumerate(weak_orders(names3)):
        out.append(dict(name=f'allin/n3/hi/w{k}', fn='h_showdown',
                        params=dict(n=3, depth=0, shape='allin', deck=deck, part=part),
                        budget_s=B, must_cover=mc))
        out.append(dict(name=f'allin/n3/hilo/w{k}', fn='h_showdown',
                        params=dict(n=3, depth=0, shape='allin', hilo=True, deck=deck,
                                    levels=2, lo_levels=1 if tier == 'quick' else 2, part=part),
                        budget_s=B, must_cover=mc))
    for k in range(3):
        for k1 in (range(3) if k == 2 else [None]):
            pre = {'d0_k': k}
            if k1 is not None:
                pre['d1_k'] = k1
            for pi, part in enumerate([[c] for c in tri('s0', 's1')] if (k, k1) == (2, 2) else [None]):
                out.append(dict(name=f'free/n2/hilo/d2/k{k}' + ('' if k1 is None else f'{k1}')
                                + ('' if part is None else f'/p{pi}'),
                                fn='h_showdown',
                                params=dict(n=2, depth=2, hilo=True, deck=deck, _preset=pre, part=part),
                                budget_s=B, must_cover=mc if k else []))
    out.append(dict(name='allin/n2/hilo/2boards/stacks-50-50', fn='h_showdown',
                    params=dict(n=2, depth=0, shape='allin', deck=deck, boards=2, hilo=True, levels=2, lo_levels=1,
                                fixed={'0': 50, '1': 50}),
                    budget_s=B, must_cover=mc))
    # dead money of a folder above the second-highest LIVE bet: bet x, short call (symbolic stack), raise y, fold
    for seat in (0, 1, 2):
        fx = {str(i): 1000 for i in range(3) if i != seat}
        out.append(dict(name=f'bet-call-raise-fold/n3/hi/short-seat{seat}', fn='h_showdown',
                        params=dict(n=3, depth=0, shape='brf', deck=deck, levels=2, fixed=fx),
                        budget_s=B, must_cover=['collected'] + (['dead-money'] if seat == 0 else [])))
    out.append(dict(name='allin/n2/hi/2boards', fn='h_showdown',
                    params=dict(n=2, depth=0, shape='allin', deck=deck, boards=2, levels=2),
                    budget_s=B, must_cover=mc))
    out.append(dict(name='allin/n3/hi/2boards/equal-stacks', fn='h_showdown',
                    params=dict(n=3, depth=0, shape='allin', deck=deck, boards=2, levels=2,
                                part=['s0==s1', 's1==s2']),
                    budget_s=B, must_cover=mc))
    # antes: trimmed (uncalled part returned) and untrimmed (dead money in the main pot), short stacks included
    for trim in (True, False):
        for k, part in enumerate(weak_orders(names3)):
            if tier == 'quick' and k not in (0, 4, 8, 12):
                continue
            out.append(dict(name=f'allin/n3/hi/ante3/trim{int(trim)}/w{k}', fn='h_showdown',
                            params=dict(n=3, depth=0, shape='allin', deck=deck, part=part, ante=3, trim=trim,
                                        levels=2),
                            budget_s=B, must_cover=mc))
    if tier == 'thorough':
        for k, part in enumerate(weak_orders(names3)):
            out.append(dict(name=f'allin/n3/hi/2boards/w{k}', fn='h_showdown',
                            params=dict(n=3, depth=0, shape='allin', deck=deck, part=part,
                                        boards=2, levels=2),
                            budget_s=B, must_cover=mc))
            out.append(dict(name=f'allin/n3/hi/cash/w{k}', fn='h_showdown',
                            params=dict(n=3, depth=0, shape='allin', deck=deck, part=part, mode='C'),
                            budget_s=B, must_cover=mc))
        for k in range(3):
            for k1 in range(3):
                out.append(dict(name=f'free/n3/hi/d3/k{k}{k1}', fn='h_showdown',
                                params=dict(n=3, depth=3, deck=deck, levels=2,
                                            _preset={'d0_k': k, 'd1_k': k1}),
                                budget_s=B, must_cover=[]))
    return out
