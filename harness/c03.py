"""C03 - betting follows the rules: whose turn, which actions, which amounts.

Oracle = a history-based rule model kept by the harness.  It is fed with the
actions that were taken (and, at the start of each betting round, with the
chips on the table) and never reads the engine's round bookkeeping
(actor_indices, completion_betting_or_raising_amount/count,
acted_player_indices, consecutive_all_in_..., bring_in_status, ...)."""
from __future__ import annotations

from typing import Any

from harness import common as C
from harness.drive import MAXCHIP
from pokerkit.state import BettingStructure, Mode

META = {
    'explanation': (
        'At every betting decision of every explored history the real queries (actor_index, can_fold, '
        'can_check_or_call, checking_or_calling_amount, can_post_bring_in, effective_bring_in_amount, '
        'min/pot/max raise-to amounts) are compared with a rule model derived from the action history, and for a '
        'SYMBOLIC amount x: can_complete_bet_or_raise_to(x) <=> x lies in the model range - which covers below, at, '
        'between and above the bounds for all x at once. Stacks and raise sizes are z3 integers.'),
    'functions': ['State._begin_betting', 'State._update_betting', 'State._end_betting', 'State.verify_folding',
                  'State.verify_checking_or_calling', 'State.verify_bring_in_posting',
                  'State._verify_completion_betting_or_raising', 'State.verify_completion_betting_or_raising_to',
                  'State.min/pot/max_completion_betting_or_raising_to_amount', 'State.get_effective_stack',
                  'State.fold', 'State.check_or_call', 'State.post_bring_in', 'State.complete_bet_or_raise_to'],
    'assumptions': ['the opener of each round is taken from the engine (C13 decides it)',
                    'chips on the table at the start of a round are read from the engine (C01 decides them)',
                    'minimum raise capped by what the opponents can cover, as the documentation of the amount properties says',
                    'int chips; concrete deck order; warnings ignored except in the cash-game fold probe'],
    'bounds': {'quick': 'NL/PL/FL button games and FL stud with bring-in; blinds (1,2)/bring-in 1, small bet 2; n=2 depth 3, n=3 depth 2; '
                        'fixed-limit cap shape (5 raises heads-up); rule-96 shapes (raise, short all-in(s), call, back to raiser) n=3/4',
               'thorough': 'n=3 depth 4, n=4 depth 3, symbolic blinds'},
    'outside': 'rounds longer than the depth; n > 4',
}


class Model:
    """rules of one betting round, history based."""

    def __init__(self, st: Any, doc: Any = None) -> None:
        self.n = st.player_count
        self.doc = doc
        self.structure = BettingStructure(doc['structure']) if doc else st.betting_structure
        self.mode = st.mode
        self.sync(st)

    def sync(self, st: Any) -> None:
        """start of a betting round: chips on the table + street parameters."""
        self.live = list(st.statuses)
        self.stack = list(st.stacks)
        self.bet = list(st.bets)
        self.pot = st.total_pot_amount - sum(st.bets)
        street = st.street
        self.street_min = street.min_completion_betting_or_raising_amount
        self.cap = street.max_completion_betting_or_raising_count
        if self.doc:
            # C11: the DOCUMENTED structure of the variant, not what the state says
            self.street_min = self.doc['bets'][st.street_index]
            self.cap = self.doc['cap']
        self.max_raise = 0          # largest raise increment this round
        self.raises = 0
        self.acted: list = []       # players who acted since the last full raise
        self.short: list = []       # all-in raises for less than a full raise since the last full raise
        self.bring_in_due = (st.street_index == 0 and st.bring_in > 0)
        self.completion_due = self.bring_in_due
        self.bring_in = st.bring_in
        self.queue: list = []
        self.over = False

    def total(self, i: int) -> Any:
        return self.stack[i] + self.bet[i]

    def max_bet(self) -> Any:
        m = self.bet[0]
        for b in self.bet[1:]:
            if b > m:
                m = b
        return m

    def eff(self, i: int) -> Any:
        """chips of i that some opponent still in the hand can cover."""
        best = None
        for j in range(self.n):
            if j != i and self.live[j]:
                if best is None or self.total(j) > best:
                    best = self.total(j)
        if best is None:
            return 0
        room = best - self.bet[i]
        if room < 0:
            room = 0
        return room if room < self.stack[i] else self.stack[i]

    def open(self, opener: int) -> None:
        q = [(opener + k) % self.n for k in range(self.n)]
        self.queue = [i for i in q if self.live[i] and self.stack[i] > 0 and self.eff(i) > 0]
        if len(self.queue) == 1 and self.bet[self.queue[0]] >= self.max_bet():
            self.queue = []
        self.check_over()

    def check_over(self) -> None:
        if not self.queue or sum(1 for x in self.live if x) <= 1:
            self.over = True
            self.queue = []

    def actor(self) -> Any:
        return self.queue[0] if self.queue else None

    # what the rules allow ----------------------------------------------------
    def to_call(self) -> Any:
        i = self.actor()
        d = self.max_bet() - self.bet[i]
        return d if d < self.stack[i] else self.stack[i]

    def fold_ok(self) -> bool:
        """tournament: only when facing a bet; cash game: allowed with a warning."""
        i = self.actor()
        if self.bring_in_due:
            return False
        return bool(self.bet[i] < self.max_bet())

    def raise_allowed(self) -> bool:
        i = self.actor()
        if self.cap is not None and self.raises >= self.cap:
            return False
        # a player who has acted since the last full raise may raise again only when what he faces
        # now (the short all-in raises made since he acted, together) amounts to a full raise
        if self.short and i in self.acted and self.max_bet() - self.bet[i] < self.max_raise:
            return False
        if self.stack[i] <= self.max_bet() - self.bet[i]:
            return False
        for j in range(self.n):
            if j != i and self.live[j] and self.total(j) > self.max_bet():
                return True
        return False

    def full_min_to(self) -> Any:
        inc = self.max_raise if self.max_raise > self.street_min else self.street_min
        return inc if self.completion_due else inc + self.max_bet()

    def min_to(self) -> Any:
        i = self.actor()
        allin = self.eff(i) + self.bet[i]
        f = self.full_min_to()
        return allin if allin < f else f

    def pot_to(self) -> Any:
        i = self.actor()
        total_pot = self.pot
        for b in self.bet:
            total_pot += b
        p = 2 * self.max_bet() - self.bet[i] + total_pot
        m = self.min_to()
        if p < m:
            p = m
        t = self.total(i)
        return t if t < p else p

    def max_to(self) -> Any:
        i = self.actor()
        if self.structure == BettingStructure.FIXED_LIMIT:
            return self.min_to()
        if self.structure == BettingStructure.POT_LIMIT:
            return self.pot_to()
        return self.total(i)

    # applying the history ------------------------------------------------------
    def do_fold(self) -> None:
        i = self.queue.pop(0)
        self.acted.append(i)
        self.live[i] = False
        self.check_over()

    def do_call(self) -> None:
        a = self.to_call()
        i = self.queue.pop(0)
        self.acted.append(i)
        self.bet[i] += a
        self.stack[i] -= a
        self.check_over()

    def do_bring_in(self) -> None:
        i = self.queue.pop(0)
        self.acted.append(i)
        a = self.bring_in if self.bring_in < self.stack[i] else self.stack[i]
        self.bet[i] += a
        self.stack[i] -= a
        self.bring_in_due = False
        self.check_over()

    def do_raise(self, x: Any) -> None:
        i = self.queue.pop(0)
        inc = x - self.max_bet()
        self.stack[i] -= x - self.bet[i]
        self.bet[i] = x
        self.bring_in_due = False
        self.completion_due = False
        if inc >= self.max_raise:
            # a full raise (all-in or not): everybody else has to respond to it afresh
            self.acted = []
            self.short = []
        else:
            self.short.append(inc)      # less than a full raise: only possible all-in
        self.acted.append(i)
        if inc > self.max_raise:
            self.max_raise = inc
        self.raises += 1
        self.queue = [(i + k) % self.n for k in range(1, self.n)]
        self.queue = [j for j in self.queue if self.live[j] and self.stack[j] > 0]
        self.check_over()


def compare(ctx: Any, st: Any, m: Model, tag: str, probe: bool = True) -> None:
    """all queries at this decision point vs the model (one conjunction)."""
    a = m.actor()
    ctx.check(st.actor_index == a, 'actor', lambda: f'{tag}: engine {st.actor_index} model {a}')
    ctx.check(st.turn_index == a or st.stander_pat_or_discarder_index is not None, 'turn_index')
    bring = m.bring_in_due
    ctx.check(st.can_post_bring_in() == bring, 'can_post_bring_in', tag)
    if bring:
        exp = m.bring_in if m.bring_in < m.stack[a] else m.stack[a]
        ctx.check(st.effective_bring_in_amount == exp, 'bring-in-amount', tag)
        ctx.check(not st.can_fold() and not st.can_check_or_call(), 'action-before-bring-in', tag)
        ctx.check(st.checking_or_calling_amount is None, 'call-amount-before-bring-in', tag)
    else:
        ctx.check(st.effective_bring_in_amount is None, 'bring-in-amount-offered', tag)
        ctx.check(st.can_check_or_call(), 'cannot-check-or-call', tag)
        ctx.check(st.checking_or_calling_amount == m.to_call(), 'call-amount', tag)
        fold_ok = m.fold_ok()
        if m.mode == Mode.TOURNAMENT:
            ctx.check(st.can_fold() == fold_ok, 'can_fold', tag)
        else:
            # cash game: a needless fold is only warned about (UserWarning), never refused
            import warnings
            with warnings.catch_warnings(record=True) as w:
                warnings.simplefilter('always')
                r = st.can_fold()
            ctx.check(r is True, 'can_fold-cash', tag)
            ctx.check((len(w) > 0) == (not fold_ok), 'fold-warning', tag)
            with warnings.catch_warnings():
                warnings.simplefilter('error')
                ctx.check(st.can_fold() == fold_ok, 'can_fold-cash-warnings-as-errors', tag)
    ok = m.raise_allowed()
    lo = st.min_completion_betting_or_raising_to_amount
    po = st.pot_completion_betting_or_raising_to_amount
    hi = st.max_completion_betting_or_raising_to_amount
    if not ok:
        ctx.check(lo is None and hi is None and po is None, 'raise-amounts-offered-though-refused', tag)
        ctx.check(not st.can_complete_bet_or_raise_to(), 'raise-accepted-though-refused', tag)
        ctx.cover('raise-refused')
    else:
        ctx.check(lo is not None and hi is not None and po is not None, 'raise-refused-though-allowed', tag)
        conds = [lo == m.min_to(), hi == m.max_to(), po == m.pot_to()]
        if not C.all_true(conds):
            ctx.fail('raise-bounds', lambda: f'{tag}: engine {lo},{po},{hi} model {m.min_to()},{m.pot_to()},{m.max_to()}')
        ctx.check(st.can_complete_bet_or_raise_to(), 'default-raise-refused', tag)
        ctx.cover('raise-allowed')
    if not probe:
        return
    # the amount probe: for ALL x at once
    x = ctx.int(f'{tag}_probe', -5, 3 * MAXCHIP)
    got = st.can_complete_bet_or_raise_to(x)
    if ok:
        exp = C.all_true([m.min_to() <= x, x <= m.max_to()])
    else:
        exp = False
    if got:
        ctx.check(exp, 'illegal-amount-accepted', lambda: f'{tag}: x={x}')
    else:
        ctx.check(not exp, 'legal-amount-refused', lambda: f'{tag}: x={x}')


def h_betting(ctx: Any, code: str, n: int, depth: int, mode: str = 'T', script: str = '',
              part: Any = None, sym_blinds: bool = False, maxstack: int = MAXCHIP,
              fixed: Any = None, doc: Any = None, min_bet: int = 2, ante_only: bool = False) -> None:
    C.native_hands()
    C.set_deck_order('identity')
    fixed = fixed or {}
    stacks = tuple(fixed[str(i)] if str(i) in fixed else ctx.int(f's{i}', 1, maxstack)
                   for i in range(n))
    ctx.constrain(part)
    cfg: dict = dict(n=n, stacks=stacks, mode=Mode.TOURNAMENT if mode == 'T' else Mode.CASH_GAME)
    if C.is_stud(code):
        cfg.update(antes=1, bring_in=1, small_bet=2, big_bet=4)
    else:
        cfg['blinds'] = (0, 0) if ante_only else (1, 2)
        if ante_only:
            cfg['antes'] = 1
        if C.uses_small_big(code):
            cfg.update(small_bet=min_bet, big_bet=2 * min_bet)
        else:
            cfg['min_bet'] = min_bet
    st = C.call(ctx, C.make_state, code, cfg)
    m = None
    round_id = None
    step = 0
    while st.status and step < depth:
        if st.stander_pat_or_discarder_index is not None:
            C.call(ctx, st.stand_pat_or_discard)
            continue
        if st.actor_index is None:
            break
        rid = (st.street_index, len([o for o in st.operations if type(o).__name__ == 'BetCollection']))
        if m is None or rid != round_id:
            if m is not None:
                ctx.check(m.over, 'round-continues-though-everybody-responded', f'step {step}')
            m = Model(st, doc)
            m.open(st.actor_index if True else 0)
            round_id = rid
            ctx.check(not m.over, 'round-offered-though-nobody-can-act', f'step {step}')
        tag = f'd{step}'
        last = step == depth - 1
        compare(ctx, st, m, tag, probe=last)
        if last:
            ctx.cover('probed')
            break
        # next action: scripted (f/c/r/b) or symbolic
        act = script[step] if step < len(script) else None
        if m.bring_in_due:
            post = (act == 'b') if act else ctx.flag(f'{tag}_bring')
            if post:
                C.call(ctx, st.post_bring_in)
                m.do_bring_in()
            else:
                x = ctx.int(f'{tag}_x', 0, 2 * MAXCHIP)
                if st.can_complete_bet_or_raise_to(x):
                    C.call(ctx, st.complete_bet_or_raise_to, x)
                    m.do_raise(x)
                    ctx.cover('raised')
                else:
                    C.call(ctx, st.post_bring_in)
                    m.do_bring_in()
        else:
            if act in ('m', 'R') or (act and act.isdigit()):
                # m: the minimum bet/raise; R: the maximum (all-in in no-limit); digit d: raise to 6*d
                # (whatever the engine says these are - the model checks the bounds at every step)
                if st.can_complete_bet_or_raise_to():
                    x = (st.min_completion_betting_or_raising_to_amount if act == 'm' else
                         st.max_completion_betting_or_raising_to_amount if act == 'R' else 6 * int(act))
                    if not st.can_complete_bet_or_raise_to(x):
                        x = st.min_completion_betting_or_raising_to_amount
                    C.call(ctx, st.complete_bet_or_raise_to, x)
                    m.do_raise(x)
                    ctx.cover('raised')
                else:
                    C.call(ctx, st.check_or_call)
                    m.do_call()
                step += 1
                same_round = (st.status and st.actor_index is not None and
                              (st.street_index, len([o for o in st.operations
                                                     if type(o).__name__ == 'BetCollection'])) == round_id)
                if m.over:
                    ctx.check(not same_round, 'round-continues-though-everybody-responded', f'after {tag}')
                else:
                    ctx.check(same_round, 'round-ended-early', f'after {tag}')
                continue
            k = {'f': 0, 'c': 1, 'r': 2}[act] if act else ctx.choice(f'{tag}_k', 3)
            if k == 0 and (st.can_fold() or (mode == 'C' and m.bet[m.actor()] >= m.max_bet())):
                C.call(ctx, st.fold)
                m.do_fold()
                ctx.cover('folded')
            elif k == 2:
                x = ctx.int(f'{tag}_x', 0, 2 * MAXCHIP)
                if st.can_complete_bet_or_raise_to(x):
                    C.call(ctx, st.complete_bet_or_raise_to, x)
                    m.do_raise(x)
                    ctx.cover('raised')
                else:
                    C.call(ctx, st.check_or_call)
                    m.do_call()
            else:
                C.call(ctx, st.check_or_call)
                m.do_call()
        step += 1
        # round end agreement
        same_round = (st.status and st.actor_index is not None and
                      (st.street_index, len([o for o in st.operations
                                             if type(o).__name__ == 'BetCollection'])) == round_id)
        if m.over:
            ctx.check(not same_round, 'round-continues-though-everybody-responded', f'after {tag}')
            ctx.cover('round-over')
        else:
            ctx.check(same_round, 'round-ended-early', f'after {tag}')
    ctx.cover('done')


def jobs(tier: str, seed: int) -> list[dict]:
    from engine.partition import weak_orders, tri
    out = []
    B = 450 if tier == 'quick' else 1200
    games = ['NT', 'PO', 'FT', 'F7S']
    mc = ['done', 'probed']

    def add(name: str, prio: int = 5, cover: Any = None, **p: Any) -> None:
        out.append(dict(name=name, fn='h_betting', params=p, budget_s=B,
                        must_cover=mc if cover is None else cover, prio=prio))
    for code in games:
        for d in (1, 2):
            add(f'{code}/n2/d{d}/T', 2, code=code, n=2, depth=d)
        add(f'{code}/n3/d1/T', 2, code=code, n=3, depth=1)
        for k, part in enumerate([[c] for c in tri('s0', 's1')]):
            add(f'{code}/n2/d3/T/p{k}', 9, code=code, n=2, depth=3, part=part)
    for k, part in enumerate(weak_orders(['s0', 's1', 's2'])):
        add(f'NT/n3/d2/T/w{k}', 8, code='NT', n=3, depth=2, part=part)
    add('NT/n2/d3/C', 9, code='NT', n=2, depth=3, mode='C', cover=['done', 'folded'])
    out[-1]['budget_s'] = 2 * B        # ~3 000 paths: confirmed in ~400 CPU-s when the machine is idle
    # fixed-limit cap: bet + 3 raises allowed, the next one refused (deep concrete stacks)
    add('FT/n2/cap', 3, code='FT', n=2, depth=6, script='crrrr', fixed={'0': 1000, '1': 1000},
        cover=['done', 'raise-refused'])
    add('F7S/n2/cap', 3, code='F7S', n=2, depth=6, script='brrrr', fixed={'0': 1000, '1': 1000},
        cover=['done', 'raise-refused'])
    # minimum bet larger than the blinds / than the whole pot (pot-limit maximum is floored by the minimum)
    for code in ('PO', 'NT'):
        add(f'{code}/n2/d2/T/min-bet-10', 4, code=code, n=2, depth=2, min_bet=10)
        add(f'{code}/n3/d1/T/ante-only/min-bet-10', 4, code=code, n=3, depth=1, min_bet=10, ante_only=True)
    # the cap counts every bet/raise, also an all-in raise for less than a full raise (4 players, symbolic short stack)
    add('FT/n4/cap/short-all-in', 6, code='FT', n=4, depth=6, script='mmmmm', fixed={'0': 1000, '1': 1000, '2': 1000},
        maxstack=12, cover=['done', 'raise-refused'])
    add('F7S/n3/cap/short-all-in', 6, code='F7S', n=3, depth=7, script='bmmmmm', fixed={'0': 1000, '1': 1000},
        maxstack=9, cover=['done'])
    # WSOP rule 96: full raise, short all-in(s), call(s), back to the raiser (who already acted)
    add('NT/n3/rule96/rrc', 7, code='NT', n=3, depth=4, script='rrc', fixed={'0': 1000, '1': 1000},
        cover=['done', 'raise-refused', 'raise-allowed'])
    # two consecutive short all-ins (symbolic stacks) after a full raise to 12: below, exactly and above a full raise
    add('NT/n4/rule96/2RRc', 7, code='NT', n=4, depth=5, script='2RRc', fixed={'1': 1000, '2': 1000},
        maxstack=60, cover=['done', 'raise-refused', 'raise-allowed'])
    # F16: a player who acted AFTER part of the all-in raises faces less than a full raise although the all-in raises
    # together reach one (4 players): full all-in raise + short all-in; two short all-ins with a caller in between
    add('NT/n4/rule96/full-all-in-then-short', 7, code='NT', n=4, depth=6, script='2RcRc', fixed={'0': 1000, '2': 1000},
        maxstack=40, cover=['done', 'raise-refused', 'raise-allowed'])
    add('NT/n4/rule96/short-call-short', 7, code='NT', n=4, depth=7, script='2RcRcc', fixed={'0': 1000, '2': 1000},
        maxstack=40, cover=['done', 'raise-refused', 'raise-allowed'])
    if tier == 'thorough':
        for code in games:
            for k, part in enumerate(weak_orders(['s0', 's1', 's2'])):
                if code != 'NT':
                    add(f'{code}/n3/d2/T/w{k}', 5, code=code, n=3, depth=2, part=part)
                else:
                    add(f'{code}/n3/d3/T/w{k}', 5, code=code, n=3, depth=3, part=part)
            for k, part in enumerate([[c] for c in tri('s0', 's1')]):
                if code not in ('NT', 'FT'):
                    continue
                for k0 in range(3):
                    pre = {'d0_bring': bool(k0 % 2)} if C.is_stud(code) else {'d0_k': k0}
                    if k0 == 0:
                        continue    # heads-up: a first-decision fold ends the hand (covered by the d1..d3 jobs)
                    add(f'{code}/n2/d4/T/p{k}/k{k0}', 5, code=code, n=2, depth=4, part=part, _preset=pre)
    return out
