"""C04 - hand comparison agrees with the rules of poker.

L1 (E2): lookup tables of the current source as SMT data vs. a rule oracle in
bit-vector logic, for symbolic rank multisets.  L2/L3 (E1): the real
Hand.__eq__/__lt__/__hash__ and key functions on symbolic inputs."""
from __future__ import annotations

import time
from typing import Any

META = {
    'explanation': (
        'L1: every lookup table instantiated by the current source is dumped into z3 as a function '
        'T(rank-count vector, suited) -> index|absent; a symbolic hand class (13 counts 0..4, suitedness) '
        'is compared with a rule oracle in QF_BV: present <=> valid, label == category, per-category index '
        'range ordered as the rules say, and for symbolic PAIRS of the same category rule-order <=> index '
        'order and rule-equal <=> index-equal. unsat = holds for every rank multiset of the type; sat models '
        'are decoded to cards and replayed on the real Hand classes. L2: real Hand comparison operators on '
        'symbolic entry indices (low flag, total_ordering derivatives, hash/eq consistency, cross-type '
        'TypeError). L3: real key functions on symbolic cards.'),
    'functions': ['Lookup._add_multisets', 'Lookup._add_straights', 'Lookup.__hash_multisets',
                  'Lookup.__reset_ranks', 'Lookup._get_key', 'BadugiLookup._get_key', 'Lookup.has_entry',
                  'Lookup.get_entry', 'Hand.__init__', 'Hand.__eq__', 'Hand.__lt__', 'Hand.__hash__',
                  'Card.are_suited', 'Card.are_rainbow', 'state._LowHandOpeningLookup',
                  'state._HighHandOpeningLookup'],
    'assumptions': [
        'table keys factor uniquely over the multipliers (checked: pairwise coprime, every key factors)',
        'rule oracle per lookup class written from the rules of the game (engine/smt_tables.py RULES)',
        'card SETS (no duplicate cards); a class is mapped to cards by L3 uniformly in the number of cards',
        'z3 5.1 (thorough: cross-checked with /usr/bin/z3 4.8.12 on the exported SMT-LIB)',
    ],
    'bounds': {
        'quick': 'all rank multisets of up to 7 cards for StandardLookup, ShortDeckHoldemLookup, EightOrBetterLookup, '
                 'BadugiLookup, StandardBadugiLookup, KuhnPokerLookup, RegularLookup and both stud opening lookups; L2 all index pairs; L3 k<=2 cards',
        'thorough': 'same + second solver + L3 k<=3',
    },
    'outside': 'multisets with duplicate cards; more than 7 cards',
}


def _lookups() -> dict:
    import pokerkit.lookups as L
    import pokerkit.state as S
    import inspect
    out = {}
    for mod in (L, S):
        for name, cls in vars(mod).items():
            if inspect.isclass(cls) and issubclass(cls, L.Lookup) and not inspect.isabstract(cls):
                out[name] = cls
    return out


def smt_query(lookup: str, kind: str, cat: str = '', budget_s: float = 280, sub: int = -1,
              second_solver: bool = False, size: int = 0) -> dict:
    import z3
    from pokerkit.utilities import Rank
    from engine import smt_tables as T
    t0 = time.time()
    cls = _lookups()[lookup]
    if lookup not in T.RULES:
        return dict(status='inconclusive', reason=f'no rule set transcribed for {lookup}', queries=0)
    rules = T.RULES[lookup]
    d = T.dump_lookup(cls())
    rows, ranks = d['rows'], d['ranks']
    # the table's own rank order must be the documented one for the type
    if ''.join(str(r.value) for r in d['rank_order']) != rules['ranks']:
        return dict(status='violation', kind='rank-order', queries=0,
                    detail=f"{lookup}.rank_order={d['rank_order']} rules={rules['ranks']}",
                    replay={'values': {'lookup': lookup, 'what': 'rank-order'}, 'outcome': 'viol'})
    labels = T.CATS
    queries = 0
    solver_s = 0.0
    samples = []

    def run(s: Any, desc: str) -> tuple:
        nonlocal queries, solver_s
        r, dt = T.solve(s, max(5.0, budget_s - (time.time() - t0)))
        queries += 1
        solver_s += dt
        rec = {'query': desc, 'result': r, 'solver_s': round(dt, 2), 'assertions': len(s.assertions())}
        if second_solver:
            # cross-check with the system z3 4.8.12 binary on the exported SMT-LIB text
            import os
            import subprocess
            import tempfile
            fd, path = tempfile.mkstemp(suffix='.smt2')
            try:
                with os.fdopen(fd, 'w') as f:
                    f.write('(set-logic QF_BV)\n' + s.sexpr() + '(check-sat)\n')
                t = time.time()
                pr = subprocess.run(['/usr/bin/z3', f'-T:{int(max(30, budget_s / 2))}', path], capture_output=True, text=True)
                out = pr.stdout.strip().splitlines()
                r2 = 'error' if any(l.startswith('(error') for l in out) else (out[-1] if out else 'none')
                rec['second_solver'] = {'name': 'z3 4.8.12 (/usr/bin/z3)', 'result': r2, 'solver_s': round(time.time() - t, 2)}
                queries += 1
                if r2 in ('sat', 'unsat') and r in ('sat', 'unsat') and r2 != r:
                    rec['disagreement'] = True
                    r = 'solvers-disagree'
            finally:
                os.unlink(path)
        samples.append(rec)
        return r

    def finish(status: str, **kw: Any) -> dict:
        return dict(status=status, queries=queries, solver_s=round(solver_s, 2),
                    sample_queries=samples, rows=len(rows), **kw)

    def refute(desc: str, model: Any, hands: list) -> dict:
        decs = [T.decode(model, h, ranks) for h in hands]
        rep = replay(lookup, rules, decs)
        if rep['reproduced']:
            return finish('violation', kind=desc, detail=str(rep), replay={'values': {'lookup': lookup, 'hands': decs, 'what': desc},
                                                                        'outcome': 'viol', 'trace': rep})
        return finish('harness-error', reason=f'model for {desc} does not reproduce on the real classes: {rep} {decs}')

    a = T.Sym('a')
    oa = T.Oracle(rules, ranks, a)
    Ta = T.table_fn(rows, a.key, 'index')
    present_a = Ta != T.ABSENT
    if kind == 'valid':
        s = z3.Solver()
        s.add(a.domain(7))
        s.add(oa.valid() != present_a)
        r = run(s, f'{lookup}: exists hand with valid(rules) != present(table)')
        if r == 'sat':
            return refute('valid!=present', s.model(), [a])
        return finish('confirmed' if r == 'unsat' else 'inconclusive', reason=r)
    if kind == 'label':
        La = T.table_fn(rows, a.key, 'label', labels)
        s = z3.Solver()
        s.add(a.domain(7), oa.valid())
        s.add(z3.Extract(7, 0, La) != oa.cat())
        r = run(s, f'{lookup}: exists valid hand with table label != rule category')
        if r == 'sat':
            return refute('label!=category', s.model(), [a])
        return finish('confirmed' if r == 'unsat' else 'inconclusive', reason=r)
    if kind == 'ranges':
        # per category: index range; ranges disjoint and ordered as the rules say
        by: dict = {}
        for c, su, idx, lab in rows:
            lo, hi = by.get(lab, (idx, idx))
            by[lab] = (min(lo, idx), max(hi, idx))
        order = [c for c in rules['order'] if c in by]
        if rules.get('badugi'):
            order = ['HIGH_CARD']
        if sorted(by) != sorted(order):
            return finish('violation', kind='categories', detail=f'table labels {sorted(by)} rules {order}',
                          replay={'values': {'lookup': lookup, 'what': 'categories'}, 'outcome': 'viol'})
        for x, y in zip(order, order[1:]):
            if not by[x][1] < by[y][0]:
                return finish('violation', kind='category-order',
                              detail=f'{x}{by[x]} not below {y}{by[y]}',
                              replay={'values': {'lookup': lookup, 'what': 'category-order'}, 'outcome': 'viol'})
        for cname in order:
            s = z3.Solver()
            s.add(a.domain(7), oa.valid(), oa.cat() == T.CATS.index(cname))
            s.add(z3.Or(z3.ULT(Ta, by[cname][0]), z3.UGT(Ta, by[cname][1])))
            r = run(s, f'{lookup}: hand of category {cname} outside index range {by[cname]}')
            if r == 'sat':
                return refute(f'range:{cname}', s.model(), [a])
            if r != 'unsat':
                return finish('inconclusive', reason=r)
        # dense: indices 0..max all used (concrete fact of the dump)
        idxs = sorted({idx for _, _, idx, _ in rows})
        if idxs != list(range(len(idxs))):
            return finish('violation', kind='not-dense', detail='indices are not 0..k',
                          replay={'values': {'lookup': lookup, 'what': 'not-dense'}, 'outcome': 'viol'})
        return finish('confirmed', reason='unsat', ranges=by)
    if kind == 'pairs':
        b = T.Sym('b')
        ob = T.Oracle(rules, ranks, b)
        crow = [r_ for r_ in rows if r_[3] == cat] if not rules.get('badugi') else rows
        Ta2 = T.table_fn(crow, a.key, 'index')
        Tb2 = T.table_fn(crow, b.key, 'index')
        s = z3.Solver()
        s.add(a.domain(7), b.domain(7), oa.valid(), ob.valid())
        if not rules.get('badugi'):
            s.add(oa.cat() == T.CATS.index(cat), ob.cat() == T.CATS.index(cat))
        if rules.get('opening'):
            s.add(oa.n == ob.n)
        if size:
            s.add(oa.n == size)
        if sub >= 0:
            # split the big categories by the top rank of hand a (quick tier)
            m = oa.m
            top = oa.pos[sub]
            s.add(a.c[top] != 0)
            s.add(z3.And(*[a.c[p] == 0 for p in oa.pos[sub + 1:]]))
        ca, cb = oa.full_code(), ob.full_code()
        s.add(z3.Or(z3.ULT(ca, cb) != z3.ULT(Ta2, Tb2), (ca == cb) != (Ta2 == Tb2)))
        r = run(s, f'{lookup}/{cat}/{sub}: exists pair with rule order != index order')
        if r == 'sat':
            return refute(f'pair-order:{cat}', s.model(), [a, b])
        return finish('confirmed' if r == 'unsat' else 'inconclusive', reason=r)
    raise ValueError(kind)


def py_rule_key(rules: dict, ranks: str, suited: bool) -> tuple | None:
    """independent python statement of the rules for the replay (concrete)."""
    order = rules['ranks']
    if any(ch not in order for ch in ranks):
        return None
    n = len(ranks)
    if n not in rules['cards']:
        return None
    cnt = {ch: ranks.count(ch) for ch in set(ranks)}
    if not rules['paired'] and any(v > 1 for v in cnt.values()):
        return None
    if rules.get('badugi') and suited != (n == 1):
        return None
    pos = {ch: i for i, ch in enumerate(order)}
    groups = sorted(((v, pos[ch]) for ch, v in cnt.items()), reverse=True)
    shape = sorted(cnt.values(), reverse=True)
    straight = False
    sval = 0
    if rules['straights'] and n == 5 and len(cnt) == 5:
        ps = sorted(pos[ch] for ch in cnt)
        if ps == list(range(ps[0], ps[0] + 5)):
            straight, sval = True, ps[0] + 1
        elif ps == [0, 1, 2, 3, len(order) - 1]:
            straight, sval = True, 0
    flush = rules['flushes'] and suited and n == 5
    if straight and flush:
        cat = 'STRAIGHT_FLUSH'
    elif shape[0] == 4:
        cat = 'FOUR_OF_A_KIND'
    elif shape[:2] == [3, 2]:
        cat = 'FULL_HOUSE'
    elif flush:
        cat = 'FLUSH'
    elif straight:
        cat = 'STRAIGHT'
    elif shape[0] == 3:
        cat = 'THREE_OF_A_KIND'
    elif shape[:2] == [2, 2]:
        cat = 'TWO_PAIR'
    elif shape[0] == 2:
        cat = 'ONE_PAIR'
    else:
        cat = 'HIGH_CARD'
    if cat not in rules['order']:
        return None
    tb = (sval,) if straight else tuple(groups)
    if rules.get('badugi'):
        return (4 - n, 0, tb, cat)
    return (rules['order'].index(cat), n, tb, cat)


def replay(lookup: str, rules: dict, decs: list) -> dict:
    """real classes vs the python statement of the rules on the decoded hands."""
    from engine import smt_tables as T
    cls = _lookups()[lookup]
    lk = cls()
    out: dict = {'reproduced': False, 'hands': []}
    infos = []
    for d in decs:
        cards = T.rainbow_cards_for(d) if rules.get('badugi') and len(d['ranks']) != 1 else T.cards_for(d)
        if rules.get('badugi') and len(d['ranks']) == 1:
            cards = T.rainbow_cards_for(d)
        if cards is None and d['suited'] and len(d['ranks']) <= 1:
            from pokerkit.utilities import Card, Rank, Suit
            cards = [Card(Rank(r), Suit.SPADE) for r in d['ranks']]
        if cards is None:
            out['hands'].append({'dec': d, 'note': 'no physical card set'})
            return out
        try:
            has = lk.has_entry(cards)
            entry = lk.get_entry(cards) if has else None
        except (KeyError, ValueError) as e:
            has, entry = False, None
        from pokerkit.utilities import Card
        real_suited = Card.are_suited(cards)
        key = py_rule_key(rules, d['ranks'], real_suited)
        infos.append((has, entry, key))
        out['hands'].append({'cards': ''.join(map(repr, cards)), 'has_entry': has,
                             'index': entry.index if entry else None,
                             'label': entry.label.name if entry else None, 'rule_key': str(key)})
    for has, entry, key in infos:
        if has != (key is not None):
            out['reproduced'] = True
            return out
        if has and entry.label.name != key[3]:
            out['reproduced'] = True
            return out
    if len(infos) == 2 and all(i[0] for i in infos):
        (_, e1, k1), (_, e2, k2) = infos
        if (k1[:3] < k2[:3]) != (e1.index < e2.index) or (k1[:3] == k2[:3]) != (e1.index == e2.index):
            if not (rules.get('opening') and k1[1] != k2[1]):
                out['reproduced'] = True
    if len(infos) == 1 and infos[0][0]:
        out['single'] = True
    return out


LOW_BY_DOC = {
    'StandardHighHand': False, 'StandardLowHand': True, 'ShortDeckHoldemHand': False,
    'EightOrBetterLowHand': True, 'RegularLowHand': True, 'GreekHoldemHand': False,
    'OmahaHoldemHand': False, 'OmahaEightOrBetterLowHand': True, 'BadugiHand': True,
    'StandardBadugiHand': True, 'KuhnPokerHand': False,
}


def h_compare(ctx: Any, low: bool, maxidx: int = 7461) -> None:
    """L2: the REAL Hand.__eq__/__lt__ + total_ordering on symbolic entry indices."""
    from harness.symhand import make_symhand
    from pokerkit.utilities import Card
    H = make_symhand(ctx, 'X', low, maxidx + 1)
    G = make_symhand(ctx, 'Y', low, maxidx + 1)
    ca, cb = tuple(Card.parse('AsKs')), tuple(Card.parse('QhJh'))
    a, b, c = H(ca), H(cb), G(ca)
    ia, ib = H.lookup.idx[H.lookup.ensure(ca)], H.lookup.idx[H.lookup.ensure(cb)]
    weaker = (ia > ib) if low else (ia < ib)
    ctx.check((a < b) == weaker, 'lt')
    ctx.check((b > a) == weaker, 'gt')
    ctx.check((a == b) == (ia == ib), 'eq')
    ctx.check((a != b) == (ia != ib), 'ne')
    ctx.check((a <= b) == (weaker or ia == ib), 'le')
    ctx.check((b >= a) == (weaker or ia == ib), 'ge')
    ctx.check(not (a < b and b < a), 'asym')
    ctx.check((a < b) or (b < a) or (a == b), 'total')
    ctx.check((a == c) is False, 'cross-type-eq')
    try:
        a < c
        ctx.fail('cross-type-lt-no-typeerror')
    except TypeError:
        ctx.cover('typeerror')
    ctx.cover('compared')


def h_hash(ctx: Any, low: bool) -> None:
    from harness.symhand import make_symhand
    from pokerkit.utilities import Card
    H = make_symhand(ctx, 'X', low, 3)
    a, b = H(tuple(Card.parse('AsKs'))), H(tuple(Card.parse('QhJh')))
    if a == b:
        ctx.check(hash(a) == hash(b), 'hash-eq')
        ctx.cover('equal')
    ctx.cover('hashed')


CLASS_TABLE = {
    # hand class: (lookup class, card_count, board_card_count, hole_card_count) by the documentation
    'StandardHighHand': ('StandardLookup', 5, None, None), 'StandardLowHand': ('StandardLookup', 5, None, None),
    'ShortDeckHoldemHand': ('ShortDeckHoldemLookup', 5, None, None),
    'EightOrBetterLowHand': ('EightOrBetterLookup', 5, None, None), 'RegularLowHand': ('RegularLookup', 5, None, None),
    'GreekHoldemHand': ('StandardLookup', 5, 3, None), 'OmahaHoldemHand': ('StandardLookup', 5, 3, 2),
    'OmahaEightOrBetterLowHand': ('EightOrBetterLookup', 5, 3, 2), 'BadugiHand': ('BadugiLookup', None, None, None),
    'StandardBadugiHand': ('StandardBadugiLookup', None, None, None), 'KuhnPokerHand': ('KuhnPokerLookup', None, None, None),
}


def low_flags() -> dict:
    import inspect
    import pokerkit.hands as H
    bad = []
    seen = 0
    for name, cls in vars(H).items():
        if (inspect.isclass(cls) and issubclass(cls, H.Hand) and hasattr(cls, 'low')
                and hasattr(cls, 'lookup')):
            if name not in LOW_BY_DOC:
                return dict(status='inconclusive', reason=f'unknown hand class {name}')
            seen += 1
            if cls.low is not LOW_BY_DOC[name]:
                bad.append(name)
            lk, cc, bc, hc = CLASS_TABLE[name]
            got = (type(cls.lookup).__name__, getattr(cls, 'card_count', None), getattr(cls, 'board_card_count', None),
                   getattr(cls, 'hole_card_count', None))
            if got != (lk, cc, bc, hc):
                bad.append(f'{name}: {got} documented {(lk, cc, bc, hc)}')
    if bad:
        return dict(status='violation', kind='low-flag', detail=str(bad),
                    replay={'values': {'classes': bad}, 'outcome': 'viol'})
    return dict(status='confirmed', reason=f'{seen} classes', native_replays=seen)


_LK_CACHE: dict = {}


def _lk(name: str) -> Any:
    from crosshair.tracers import NoTracing
    with NoTracing():
        if name not in _LK_CACHE:
            _LK_CACHE[name] = _lookups()[name]()
        return _LK_CACHE[name]


def _hand_classes() -> dict:
    import inspect
    import pokerkit.hands as H
    return {n: c for n, c in vars(H).items()
            if inspect.isclass(c) and issubclass(c, H.Hand) and hasattr(c, 'low') and hasattr(c, 'lookup')}


def h_keys(ctx: Any, lookup: str, k: int, ranks: str = '', suits: str = '') -> None:
    """L3: real Card predicates, Lookup._get_key / has_entry / get_entry and Hand.__init__
    on k cards with symbolic (pinned) rank and suit, unknowns included."""
    from engine import smt_tables as T
    from pokerkit.lookups import Lookup
    from pokerkit.utilities import Card, Rank, Suit
    RANKS, SUITS = list(Rank), list(Suit)
    if ranks:
        RANKS = [Rank(ch) for ch in ranks]
    if suits:
        SUITS = [Suit(ch) for ch in suits]
    mult = dict(getattr(Lookup, '_Lookup__multipliers'))
    lk = _lk(lookup)
    rules = T.RULES[lookup]
    cards = []
    for i in range(k):
        cards.append(Card(RANKS[ctx.choice(f'r{i}', len(RANKS))], SUITS[ctx.choice(f's{i}', len(SUITS))]))
    for i in range(k):
        for j in range(i):
            ctx.assume(cards[i] != cards[j])     # card SETS
    suits = [c.suit for c in cards]
    ranks = [c.rank for c in cards]
    suited = all(x == suits[0] for x in suits)
    rainbow = all(suits[i] != suits[j] for i in range(k) for j in range(i))
    paired = any(ranks[i] == ranks[j] for i in range(k) for j in range(i))
    ctx.check(Card.are_suited(cards) == suited, 'are_suited')
    ctx.check(Card.are_rainbow(cards) == rainbow, 'are_rainbow')
    ctx.check(Card.are_paired(cards) == paired, 'are_paired')
    unknown_rank = any(r == Rank.UNKNOWN for r in ranks)
    exp_key = None
    if not unknown_rank and not (rules.get('badugi') and not rainbow):
        p = 1
        for r in ranks:
            p *= mult[r]
        exp_key = (p, suited)
    try:
        key = lk._get_key(cards)
        ctx.check(exp_key is not None and key == exp_key, 'key', lambda: f'{cards} {key} {exp_key}')
        ctx.cover('key')
    except ValueError:
        ctx.check(rules.get('badugi') and not rainbow, 'key-valueerror', lambda: f'{cards}')
        ctx.cover('nonrainbow')
    except KeyError:
        ctx.check(unknown_rank, 'key-keyerror', lambda: f'{cards}')
        ctx.cover('unknown')
    # validity by the rules (python statement), independent of the table
    rk = None
    if not unknown_rank and not any(s_ == Suit.UNKNOWN for s_ in suits) or (not unknown_rank):
        rk = py_rule_key(rules, ''.join(str(r.value) for r in ranks), suited) if not unknown_rank else None
        if rules.get('badugi') and not rainbow:
            rk = None
    try:
        has = lk.has_entry(cards)
        ctx.check(has == (rk is not None), 'has_entry', lambda: f'{cards} has={has} rules={rk}')
    except KeyError:
        ctx.check(unknown_rank, 'has_entry-keyerror')
        has = False
    for hname, hcls in _hand_classes().items():
        if type(hcls.lookup).__name__ != lookup:
            continue
        try:
            hand = hcls(cards)
            ctx.check(has, 'hand-accepted-invalid', lambda: f'{hname} {cards}')
            ctx.check(hand.cards == tuple(cards), 'hand-cards')
            ctx.cover('hand-ok')
        except (ValueError, KeyError):
            ctx.check(not has, 'hand-rejected-valid', lambda: f'{hname} {cards}')
            ctx.cover('hand-rejected')


FORM_SAMPLES = {
    'StandardHighHand': ['AcKcQcJcTc', '2c2d2h3s3c', '7c5d4h3s2c'], 'StandardLowHand': ['AcKcQcJcTc', '7c5d4h3s2c'],
    'ShortDeckHoldemHand': ['AcKcQcJcTc', 'Ac6d7h8s9c'], 'EightOrBetterLowHand': ['Ac2d3h4s5c', '8c7d6h5s4c'],
    'RegularLowHand': ['Ac2d3h4s5c', 'KcKdKhKsQc'], 'GreekHoldemHand': ['AcKcQcJcTc'], 'OmahaHoldemHand': ['AcKcQcJcTc'],
    'OmahaEightOrBetterLowHand': ['Ac2d3h4s5c'], 'BadugiHand': ['Ac2d3h4s', 'Kc', '2c3d'],
    'StandardBadugiHand': ['Ac2d3h4s', 'Kc'], 'KuhnPokerHand': ['Ks', 'Js'],
}


def h_forms(ctx: Any) -> None:
    """the same valid hand given as text, tuple, list, one-shot generator / iterator / map: one and the same hand."""
    from harness import common as C
    from pokerkit.utilities import Card
    classes = _hand_classes()
    names = sorted(n for n in classes if n in FORM_SAMPLES)
    ctx.check(len(names) == len(classes), 'unknown-hand-class', lambda: f'{sorted(set(classes) - set(FORM_SAMPLES))}')
    name = names[ctx.choice('class', len(names))]
    samples = FORM_SAMPLES[name]
    text = samples[ctx.choice('sample', len(samples))]
    cards = tuple(Card.parse(text))
    ref = classes[name](cards)
    form = ctx.choice('form', 7)
    arg = [lambda: text, lambda: list(cards), lambda: Card.parse(text), lambda: iter(cards), lambda: (c for c in cards),
           lambda: map(lambda c: c, cards), lambda: reversed(cards[::-1])][form]()
    try:
        h = classes[name](arg)
    except Exception as e:
        C.reraise_control(e)
        ctx.fail('valid-hand-rejected-in-another-form', f'{name}({text!r}) as form {form}: {type(e).__name__}: {e}')
    ctx.check(h == ref and hash(h) == hash(ref) and h.cards == cards and h.entry == ref.entry, 'form-changes-the-hand',
              lambda: f'{name}({text!r}) form {form}: {h!r} vs {ref!r}')
    ctx.cover('form')


BIG = {'StandardLookup': {'HIGH_CARD', 'ONE_PAIR'}, 'RegularLookup': {'HIGH_CARD', 'ONE_PAIR'}}


def jobs(tier: str, seed: int) -> list[dict]:
    from engine import smt_tables as T
    out = []
    names = list(T.RULES)
    B = 450 if tier == 'quick' else 1800
    for lk in names:
        rules = T.RULES[lk]
        for kind in ('valid', 'label', 'ranges'):
            out.append(dict(name=f'L1/{lk}/{kind}', kind='native', fn='smt_query',
                            params=dict(lookup=lk, kind=kind, budget_s=B, second_solver=tier == 'thorough'), budget_s=B))
        cats = ['ALL'] if rules.get('badugi') else rules['order']
        for cat in cats:
            if rules.get('opening') and cat in ('HIGH_CARD', 'ONE_PAIR'):
                for size in rules['cards']:
                    if cat == 'HIGH_CARD' and size >= 4:
                        # the largest class (4 distinct ranks, ~700 keys per suitedness): split by the top rank of hand a
                        for sub in range(len(rules['ranks'])):
                            out.append(dict(name=f'L1/{lk}/pairs/{cat}/size{size}/top{sub}', kind='native', fn='smt_query',
                                            params=dict(lookup=lk, kind='pairs', cat=cat, size=size, sub=sub, budget_s=B,
                                                        second_solver=tier == 'thorough'), budget_s=B))
                        continue
                    out.append(dict(name=f'L1/{lk}/pairs/{cat}/size{size}', kind='native', fn='smt_query',
                                    params=dict(lookup=lk, kind='pairs', cat=cat, size=size, budget_s=B, second_solver=tier == 'thorough'),
                                    budget_s=B))
            elif lk in BIG and cat in BIG[lk]:
                m = len(rules['ranks'])
                for sub in range(m):
                    out.append(dict(name=f'L1/{lk}/pairs/{cat}/top{sub}', kind='native', fn='smt_query',
                                    params=dict(lookup=lk, kind='pairs', cat=cat, sub=sub, budget_s=B, second_solver=tier == 'thorough'),
                                    budget_s=B))
            else:
                out.append(dict(name=f'L1/{lk}/pairs/{cat}', kind='native', fn='smt_query',
                                params=dict(lookup=lk, kind='pairs', cat=cat, budget_s=B, second_solver=tier == 'thorough'), budget_s=B))
    for low in (False, True):
        out.append(dict(name=f'L2/compare/low{int(low)}', fn='h_compare', params=dict(low=low),
                        budget_s=120, must_cover=['compared', 'typeerror']))
        out.append(dict(name=f'L2/hash/low{int(low)}', fn='h_hash', params=dict(low=low),
                        budget_s=120, must_cover=['hashed', 'equal']))
    for lk in names:
        for k in ((1, 2) if tier == 'quick' else (1, 2)):
            out.append(dict(name=f'L3/{lk}/k{k}', fn='h_keys', params=dict(lookup=lk, k=k),
                            budget_s=280, must_cover=['key']))
    for lk in ('BadugiLookup', 'StandardBadugiLookup'):
        out.append(dict(name=f'L3/{lk}/k3/ranks-A23K', fn='h_keys', params=dict(lookup=lk, k=3, ranks='A23K', suits='cdhs'),
                        budget_s=280, must_cover=['key', 'nonrainbow']))
        out.append(dict(name=f'L3/{lk}/k4/ranks-A2/suits-cdh', fn='h_keys', params=dict(lookup=lk, k=4, ranks='A234', suits='cd'),
                        budget_s=280, must_cover=['nonrainbow']))
    out.append(dict(name='L2/forms', fn='h_forms', traced=False, params={}, budget_s=120, must_cover=['form']))
    out.append(dict(name='L2/low-flags', kind='native', fn='low_flags', params={}, budget_s=30))
    return out
