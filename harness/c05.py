"""C05 - the hand made from hole and board cards is the best one allowed.

The REAL composition code (CombinationHand / BoardCombinationHand /
HoleBoardCombinationHand / BadugiHand / KuhnPokerHand .from_game and
Hand.from_game_or_none, Hand.__init__, comparison operators) runs on thin
subclasses that only replace ``lookup`` by a parametric one: every candidate
card subset gets a symbolic validity bit and a symbolic strength index."""
from __future__ import annotations

from itertools import combinations
from typing import Any

from crosshair.tracers import NoTracing
from harness import common as C

META = {
    'explanation': (
        'Parametric evaluator per composition rule: the real from_game search runs over distinct placeholder '
        'cards while the lookup answers has_entry/get_entry with z3 booleans/integers per card subset. The '
        'oracle enumerates the legal combinations from the documented rule and asserts: the result is legal '
        'and valid, no legal valid combination is stronger (respecting low), and an error / None is reported '
        'exactly when no legal combination is valid. Holding for every valuation it holds for the real lookup and every deal.'),
    'functions': ['CombinationHand.from_game', 'BoardCombinationHand.from_game',
                  'HoleBoardCombinationHand.from_game', 'BadugiHand.from_game', 'KuhnPokerHand.from_game',
                  'Hand.from_game_or_none', 'Hand.__init__', 'Hand.__lt__', 'Hand.__eq__',
                  'State.get_hand', 'State.get_up_hand'],
    'assumptions': ['lookup abstracted to arbitrary validity/strength per card subset (badugi: validity downward closed, as C04 L1 shows for the real table)',
                    'the composition loops are size-generic itertools.combinations: small card counts stand for the full-size games'],
    'bounds': {'quick': 'any-5-of-6 (m=6), Greek 2 hole + 3 of 4 board and 3 hole + 3 of 4 board, Omaha 2-of-3 hole x 3-of-4 board (m=12, high and low with validity), '
                        'badugi 4 cards (15 subsets), Kuhn 3 cards; hole/board counts 0..n in the degenerate cases',
               'thorough': 'Omaha 2-of-4 x 3-of-4 (m=24), any-5-of-7 (m=21)'},
    'outside': 'full-size Omaha (m=60); more than 7 cards',
}

DECK = None


def _deck() -> list:
    global DECK
    if DECK is None:
        from pokerkit.utilities import Deck
        DECK = list(Deck.STANDARD)
    return DECK


def _key(cards: Any) -> tuple:
    with NoTracing():
        return tuple(sorted(repr(c) for c in cards))


class ComboLookup:
    def __init__(self, ctx: Any, levels: int, with_validity: bool, down_closed: bool = False,
                 labels: bool = False) -> None:
        self.ctx, self.levels, self.with_validity, self.down_closed = ctx, levels, with_validity, down_closed
        self.labels = labels
        self.valid: dict = {}
        self.idx: dict = {}
        self.asked: list = []

    def ensure(self, cards: Any) -> tuple:
        key = _key(cards)
        if key not in self.valid:
            name = 'c_' + ''.join(key)
            v = True
            if self.with_validity:
                v = not self.ctx.flag(name + '_invalid')
                if self.down_closed:
                    with NoTracing():
                        ks = set(key)
                        subs = [k for k in self.valid if set(k) < ks]
                        sups = [k for k in self.valid if set(k) > ks]
                    for k in subs:
                        if v and not self.valid[k]:
                            self.ctx.assume(False)
                    for k in sups:
                        if self.valid[k] and not v:
                            self.ctx.assume(False)
            self.valid[key] = v
            if v:
                self.idx[key] = self.ctx.int(name, 0, self.levels - 1)
        return key

    def has_entry(self, cards: Any) -> bool:
        key = self.ensure(cards)
        self.asked.append(key)
        return self.valid[key]

    def get_entry(self, cards: Any) -> Any:
        from pokerkit.lookups import Entry, Label
        key = self.ensure(cards)
        if not self.valid[key]:
            raise ValueError('invalid')
        if self.labels:
            # several strengths share the best category's label: the result must not depend on labels
            return Entry(self.idx[key], Label.STRAIGHT_FLUSH if self.idx[key] >= 1 else Label.HIGH_CARD)
        return Entry(self.idx[key], Label.HIGH_CARD)


def legal_combos(rule: str, hole: list, board: list, cc: int, bc: int, hc: int) -> list:
    """the documented composition rule, stated independently."""
    out = []
    if rule == 'any':
        out = [set(c) for c in combinations(hole + board, cc)]
    elif rule == 'board':       # all hole cards may be used, exactly bc board cards are available
        for b in combinations(board, bc):
            out += [set(c) for c in combinations(hole + list(b), cc)]
    elif rule == 'holeboard':   # exactly hc hole cards and bc board cards are available
        for h in combinations(hole, hc):
            for b in combinations(board, bc):
                out += [set(c) for c in combinations(list(h) + list(b), cc)]
    elif rule == 'badugi':
        cards = hole + board
        for k in range(4, 0, -1):
            out += [set(c) for c in combinations(cards, k)]
    elif rule == 'kuhn':
        out = [{c} for c in hole + board]
    uniq = []
    for s in out:
        if s not in uniq:
            uniq.append(s)
    return uniq


def h_compose(ctx: Any, base: str, rule: str, nh: int, nb: int, low: bool, validity: bool,
              levels: int = 0, or_none: bool = False, as_iter: bool = False, labels: bool = False) -> None:
    import pokerkit.hands as H
    cls0 = getattr(H, base)
    cards = _deck()
    hole, board = cards[:nh], cards[20:20 + nb]
    cc = getattr(cls0, 'card_count', 0)
    bc = getattr(cls0, 'board_card_count', 0)
    hc = getattr(cls0, 'hole_card_count', 0)
    legal = legal_combos(rule, hole, board, cc, bc, hc)
    lk = ComboLookup(ctx, levels or max(2, min(len(legal), 4)), validity, down_closed=(rule == 'badugi'), labels=labels)

    class X(cls0):  # type: ignore
        lookup = lk  # type: ignore
    X.low = low
    X.__name__ = X.__qualname__ = 'X' + base
    raised = False
    result = None
    # State.get_hand / get_up_hand hand over one-shot iterables (filter objects, generators)
    a_hole = (c for c in hole) if as_iter else hole
    a_board = filter(None, board) if as_iter else board
    try:
        if or_none:
            result = X.from_game_or_none(a_hole, a_board)
            raised = result is None
        else:
            result = X.from_game(a_hole, a_board)
    except ValueError:
        raised = True
    except Exception as e:
        C.reraise_control(e)
        ctx.fail('unexpected-exception', f'{type(e).__name__}: {e}')
    # oracle
    for s in legal:
        lk.ensure(s)
    keys = [_key(s) for s in legal]
    valid_keys = [k for k in keys if lk.valid[k]]
    if rule == 'badugi' and valid_keys:
        top = max(len(k) for k in valid_keys)
        valid_keys = [k for k in valid_keys if len(k) == top]
    if raised:
        ctx.check(not valid_keys, 'no-hand-reported-although-legal-combination-exists',
                  lambda: f'{valid_keys}')
        ctx.cover('none')
        return
    ctx.check(bool(valid_keys), 'hand-reported-without-legal-combination')
    rk = _key(result.cards)
    ctx.check(rk in keys, 'illegal-combination', lambda: f'{rk}')
    ctx.check(rk in valid_keys, 'invalid-or-smaller-combination', lambda: f'{rk}')
    ir = lk.idx[rk]
    conds = [(lk.idx[k] >= ir) if low else (lk.idx[k] <= ir) for k in valid_keys]
    if not C.all_true(conds):
        ctx.fail('stronger-legal-combination-exists', lambda: f'result {rk}')
    ctx.cover('hand')


def h_state_hands(ctx: Any, code: str, n: int, script: str, boards: int = 1) -> None:
    """State.get_hand / get_up_hand / get_up_hands feed exactly the live player's known hole cards
    (resp. up cards) and the indexed board to the hand type; folded players have no hand."""
    import warnings
    from harness.manual import play
    from pokerkit.hands import Hand
    from pokerkit.state import Mode
    C.set_deck_order('identity')
    warnings.simplefilter('ignore')
    calls: list = []

    class Rec(Hand):
        low = False

        def __init__(self, hole: Any, board: Any) -> None:
            self.hole, self.board = tuple(hole), tuple(board)

        @classmethod
        def from_game(cls, hole_cards: Any, board_cards: Any = ()) -> Any:
            h = cls(hole_cards, board_cards)
            calls.append(h)
            if not h.hole:
                raise ValueError('no hole cards')
            return h

        def __eq__(self, other: Any) -> bool:
            return isinstance(other, Rec) and len(self.hole) == len(other.hole)

        def __lt__(self, other: Any) -> bool:
            return len(self.hole) < len(other.hole)

        def __hash__(self) -> int:
            return len(self.hole)
    cfg: dict = dict(n=n, stacks=(60,) * n, antes=1, automations=(), mode=Mode.CASH_GAME,
                     starting_board_count=boards, hand_types=(Rec,))
    if C.is_stud(code):
        cfg.update(bring_in=1, small_bet=2, big_bet=4)
    else:
        cfg['blinds'] = (1, 2)
        if C.uses_small_big(code):
            cfg.update(small_bet=2, big_bet=4)
        else:
            cfg['min_bet'] = 2
    st = C.make_state(code, cfg)
    pts = list(range(400))
    target = ctx.choice('point', 60)
    for k, _ in enumerate(play(st, script)):
        if k == target:
            break
    for i in range(n):
        for b in range(st.board_count):
            board = tuple(st.get_board_cards(b))
            del calls[:]
            h = st.get_hand(i, b, 0)
            if not st.statuses[i]:
                ctx.check(h is None, 'folded-player-has-a-hand')
                continue
            known = tuple(c for c in st.hole_cards[i] if c)
            if known:
                ctx.check(h is not None and h.hole == known and h.board == board, 'get_hand-feeds-wrong-cards',
                          lambda: f'player {i} board {b}: {getattr(h, "hole", None)} {getattr(h, "board", None)} expected {known} {board}')
            else:
                ctx.check(h is None, 'hand-without-cards')
            up = tuple(st.get_up_cards(i))
            u = st.get_up_hand(i, b, 0)
            if up:
                ctx.check(u is not None and u.hole == up and u.board == board, 'get_up_hand-feeds-wrong-cards')
            else:
                ctx.check(u is None, 'up-hand-without-up-cards')
            us = list(st.get_up_hands(b, 0))
            ctx.check(len(us) == n and (us[i] is None) == (u is None), 'get_up_hands-inconsistent')
    ctx.cover('done')


def jobs(tier: str, seed: int) -> list[dict]:
    out = []
    B = 280 if tier == 'quick' else 1500

    def add(name: str, mc: list, **p: Any) -> None:
        out.append(dict(name=name, fn='h_compose', params=p, budget_s=B, must_cover=mc))
    for low in (False, True):
        L = f'low{int(low)}'
        add(f'any5of6/{L}', ['hand'], base='StandardHighHand', rule='any', nh=2, nb=4, low=low, validity=False)
        add(f'any5of6/validity/{L}', ['hand', 'none'], base='EightOrBetterLowHand', rule='any', nh=2, nb=4,
            low=low, validity=True, levels=3)
        add(f'greek/2h4b/{L}', ['hand'], base='GreekHoldemHand', rule='board', nh=2, nb=4, low=low, validity=False)
        add(f'greek/2h4b/validity/{L}', ['hand', 'none'], base='GreekHoldemHand', rule='board', nh=2, nb=4,
            low=low, validity=True, or_none=True)
        add(f'omaha/3h4b/{L}', ['hand'], base='OmahaHoldemHand', rule='holeboard', nh=3, nb=4, low=low,
            validity=False, levels=2 if tier == 'quick' else 3)
        add(f'omaha/2h4b/validity/{L}', ['hand', 'none'], base='OmahaEightOrBetterLowHand', rule='holeboard',
            nh=2, nb=4, low=low, validity=True, levels=3)
        add(f'omaha/3h3b/validity/{L}', ['hand', 'none'], base='OmahaEightOrBetterLowHand', rule='holeboard',
            nh=3, nb=3, low=low, validity=True, levels=3, or_none=True)
        add(f'badugi/4/{L}', ['hand', 'none'], base='BadugiHand', rule='badugi', nh=4, nb=0, low=low,
            validity=True, levels=2)
        add(f'badugi/3/{L}', ['hand', 'none'], base='BadugiHand', rule='badugi', nh=3, nb=0, low=low,
            validity=True, levels=3)
        add(f'kuhn/3/{L}', ['hand'], base='KuhnPokerHand', rule='kuhn', nh=2, nb=1, low=low, validity=False, levels=3)
    # the same rules fed with one-shot iterables, as State does
    add('iter/any5of6', ['hand'], base='StandardHighHand', rule='any', nh=2, nb=4, low=False, validity=False, as_iter=True)
    add('iter/greek/2h4b', ['hand'], base='GreekHoldemHand', rule='board', nh=2, nb=4, low=False, validity=False, as_iter=True)
    add('iter/greek/2h5b', ['hand'], base='GreekHoldemHand', rule='board', nh=2, nb=5, low=False,
        validity=False, levels=2, as_iter=True, or_none=True)
    add('iter/omaha/3h4b', ['hand'], base='OmahaHoldemHand', rule='holeboard', nh=3, nb=4, low=True, validity=False,
        levels=2, as_iter=True)
    add('iter/badugi/3', ['hand', 'none'], base='BadugiHand', rule='badugi', nh=3, nb=0, low=True, validity=True,
        levels=2, as_iter=True)
    add('iter/kuhn/3', ['hand'], base='KuhnPokerHand', rule='kuhn', nh=2, nb=1, low=False, validity=False, levels=3, as_iter=True)
    # the entry label varies with the strength (two strengths share the top category's label)
    for low in (False, True):
        add(f'any5of6/labels/low{int(low)}', ['hand'], base='StandardHighHand', rule='any', nh=2, nb=4, low=low,
            validity=False, levels=3, labels=True)
    # degenerate sizes: too few cards => no hand
    add('any/4cards', ['none'], base='StandardHighHand', rule='any', nh=2, nb=2, low=False, validity=False)
    add('omaha/1hole', ['none'], base='OmahaHoldemHand', rule='holeboard', nh=1, nb=4, low=False, validity=False)
    add('omaha/2board', ['none'], base='OmahaHoldemHand', rule='holeboard', nh=4, nb=2, low=False, validity=False, or_none=True)
    add('greek/0hole3board', ['none'], base='GreekHoldemHand', rule='board', nh=0, nb=3, low=False, validity=False)
    for code, n, script, b in (('NT', 3, 'cfc', 1), ('PO', 2, 'cc', 2), ('F7S', 3, 'bcf', 1), ('N2L1D', 2, 'ccds', 1)):
        out.append(dict(name=f'state-hands/{code}/n{n}', fn='h_state_hands', traced=False,
                        params=dict(code=code, n=n, script=script, boards=b), budget_s=B, must_cover=['done']))
    if tier == 'thorough':
        for low in (False, True):
            L = f'low{int(low)}'
            add(f'omaha/4h4b/{L}', ['hand'], base='OmahaHoldemHand', rule='holeboard', nh=4, nb=4, low=low,
                validity=False, levels=2)
            add(f'any5of7/{L}', ['hand'], base='StandardHighHand', rule='any', nh=2, nb=5, low=low,
                validity=False, levels=2)
        add('omaha/3h4b/labels', ['hand'], base='OmahaHoldemHand', rule='holeboard', nh=3, nb=4, low=False,
            validity=False, levels=2, labels=True)
    return out
