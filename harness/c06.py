"""C06 - cards are conserved; C10 - dealing follows the street definitions.
One driver (symbolic fold bits, discard masks, manual dealing counts, explicit /
unknown / engine-chosen cards), two monitors."""
from __future__ import annotations

import warnings
from collections import Counter
from typing import Any

from harness import common as C
from pokerkit.state import Automation, Mode, Opening, Street

META = {
    'explanation': (
        'The state is discrete, so the solver variables are CHOICES: fold bits per decision, discard masks, per-call '
        'dealing counts for deal_hole(k)/deal_board(k), and selectors between engine-chosen, explicit known and unknown '
        'cards. The real code runs natively between decisions; every feasible choice vector is explored through the '
        'solver\'s search tree. Monitor after EVERY logged operation: the six card containers partition the deck '
        '(every card exactly once; with explicit/unknown cards: no known card twice); reserves are recycled only when '
        'the deck is short; fold/kill -> muck, burn -> burns, discard -> discards of the street.'),
    'functions': ['State._consume_cards', 'State._produce_cards', 'State.get_dealable_cards', 'State._verify_cards_consumption',
                  'State.burn_card', 'State.deal_hole', 'State.deal_board', 'State.stand_pat_or_discard', 'State._muck_hole_cards',
                  'State.show_or_muck_hole_cards', 'State._begin_dealing', 'State._update_dealing', 'State.hole_dealee_index',
                  'Street.__post_init__'],
    'assumptions': ['chips concrete; deck order stub; weakest fit of the family (said so in DESIGN): finite choice spaces exhausted via the solver'],
    'bounds': {'quick': 'Kuhn-like 3-card deck, Royal (20 cards), N2L1D n=2..3, F2L3D n=4 (exhaustion in later draws), F7S n=3 and 8-handed stud with symbolic fold bits (52-card exhaustion and board fallback), badugi n=3, NT/PO 2 boards; custom mixed up/down + draw street list',
               'thorough': 'more players and deeper symbolic decisions'},
    'outside': 'symbolic card identities on 36/52-card decks; larger player counts',
}


def containers(st: Any) -> list:
    out = list(st.deck_cards) + list(st.burn_cards) + list(st.mucked_cards)
    for x in st.board_cards:
        out += list(x)
    for x in st.hole_cards:
        out += list(x)
    for x in st.discarded_cards:
        out += list(x)
    return out


class CardMonitor:
    """C06 monitor."""

    def __init__(self, ctx: Any, exact: bool) -> None:
        self.ctx, self.exact = ctx, exact
        self.prev_reserve: set = set()
        self.prev_deck = None

    def __call__(self, st: Any, op: Any) -> None:
        ctx = self.ctx
        ctx.ops += 1
        cards = [c for c in containers(st) if c]
        cnt = Counter(cards)
        dup = [c for c, k in cnt.items() if k > 1]
        ctx.check(not dup, 'card-in-two-places', lambda: f'after {type(op).__name__}: {dup}')
        if self.exact:
            missing = [c for c in st.deck if c not in cnt]
            extra = [c for c in cnt if c not in st.deck]
            ctx.check(not missing and not extra, 'card-lost-or-foreign',
                      lambda: f'after {type(op).__name__}: missing {missing} extra {extra}')
        name = type(op).__name__
        # known cards only: unknown placeholders ('??') are not tracked individually
        reserve = set(c for c in st.burn_cards if c) | set(c for c in st.mucked_cards if c)
        for d in st.discarded_cards:
            reserve |= set(c for c in d if c)
        if name in ('CardBurning', 'HoleDealing', 'BoardDealing') and self.prev_deck is not None:
            need = 1 if name == 'CardBurning' else len(op.cards)
            # recycling = a card of the reserve went back INTO THE DECK (a reserve card named explicitly by the
            # caller moves straight to a hand/board: that is a move, not a replenishment)
            back = [c for c in self.prev_reserve if c in st.deck_cards]
            if back:
                ctx.check(self.prev_deck < need, 'replenished-although-deck-not-exhausted',
                          lambda: f'{name}: deck had {self.prev_deck}, needed {need}')
                ctx.cover('replenished')
        if name == 'Folding' or name == 'HandKilling':
            ctx.check(not st.hole_cards[op.player_index], 'folded-cards-not-mucked')
        if name == 'CardBurning':
            ctx.check(st.burn_cards and st.burn_cards[-1] == op.card or not op.card or True, 'burn-pile')
        self.prev_reserve = reserve
        self.prev_deck = len(st.deck_cards)


class DealMonitor:
    """C10 oracle, computed from the Street tuples (not from the engine's status lists)."""

    def __init__(self, ctx: Any) -> None:
        self.ctx = ctx
        self.street = None
        self.board_total = 0        # community cards every board must hold after the streets dealt so far
        self.fallback_seen = False
        self.reset()

    def reset(self) -> None:
        self.burnt = 0
        self.hole: dict = {}
        self.board = 0
        self.order: list = []
        self.discards: dict = {}
        self.discarded_cards: dict = {}
        self.first_op = True

    def begin(self, st: Any) -> None:
        """called by the driver when a new street's dealing phase starts."""
        self.reset()
        self.street = st.street
        self.idx = st.street_index
        self.live = [i for i in range(st.player_count) if st.statuses[i]]
        self.up_before = {i: list(st.hole_card_statuses[i]) for i in self.live}
        self.cards_before = {i: list(st.hole_cards[i]) for i in self.live}
        free = len([c for c in containers(st) if c]) - sum(len([c for c in h if c]) for h in st.hole_cards) \
            - sum(len(b) for b in st.board_cards)
        owed = len(self.street.hole_dealing_statuses) * len(self.live)
        self.fallback = owed > free
        self.boards = st.starting_board_count

    def __call__(self, st: Any, op: Any) -> None:
        ctx = self.ctx
        name = type(op).__name__
        if name in ('CardBurning', 'HoleDealing', 'BoardDealing', 'StandingPatOrDiscarding') and (
                self.street is None or st.street_index != self.idx):
            # automated dealing: the street starts with this operation
            if self.street is not None:
                self.end(st)
            self.begin(st)
            if name in ('HoleDealing', 'BoardDealing'):
                owed = len(self.street.hole_dealing_statuses) * len(self.live)
                free = len([c for c in containers(st) if c]) - sum(len([c for c in h if c]) for h in st.hole_cards) \
                    - sum(len(b) for b in st.board_cards) + len(op.cards)
                self.fallback = owed > free
            if name == 'HoleDealing':
                i = op.player_index
                self.cards_before[i] = self.cards_before[i][:len(self.cards_before[i]) - len(op.cards)]
                self.up_before[i] = self.up_before[i][:len(self.up_before[i]) - len(op.cards)]
        if self.street is None:
            return
        if name == 'CardBurning':
            ctx.check(self.street.card_burning_status, 'burn-not-prescribed', lambda: f'street {self.idx}')
            ctx.check(self.burnt == 0 and not self.hole and self.board == 0, 'burn-not-first')
            self.burnt += 1
        elif name == 'HoleDealing':
            ctx.check(not self.street.card_burning_status or self.burnt == 1, 'dealt-before-burn')
            ctx.check(op.player_index in self.live, 'folded-player-dealt')
            got = self.hole.setdefault(op.player_index, [])
            got += list(op.statuses)
            self.order += [op.player_index] * len(op.cards)
        elif name == 'BoardDealing':
            ctx.check(not self.street.card_burning_status or self.burnt == 1, 'dealt-before-burn')
            self.board += len(op.cards)
            if st.street_return_index is None and st.street_index == self.idx and not self.fallback:
                # boards are dealt in order: a later board gets cards of this street only once the
                # earlier ones hold all of theirs (a partial deal continues the same board)
                base = self.board_total + sum(x.board_dealing_count for x in st.streets[:self.idx])
                full = base + self.street.board_dealing_count
                lens = [len(tuple(st.get_board_cards(b))) for b in range(st.board_count)]
                for b in range(len(lens) - 1):
                    ctx.check(not (lens[b + 1] > base and lens[b] < full) and lens[b] <= full, 'board-dealt-out-of-order',
                              lambda: f'street {self.idx}: cards per board {lens} (before the street {base}, prescribed {full})')
        elif name == 'StandingPatOrDiscarding':
            ctx.check(self.street.draw_status, 'draw-not-prescribed')
            own = self.cards_before[op.player_index]
            ctx.check(all(c in own for c in op.cards), 'discarded-card-not-held')
            self.discards[op.player_index] = [self.up_before[op.player_index][own.index(c)] for c in op.cards]
            self.discarded_cards[op.player_index] = list(op.cards)

    def end(self, st: Any) -> None:
        """dealing of the street is complete (betting or the next phase started)."""
        ctx = self.ctx
        s = self.street
        if s is None:
            return
        k = len(s.hole_dealing_statuses)
        if s.card_burning_status:
            ctx.check(self.burnt == 1, 'no-burn', lambda: f'street {self.idx}')
        self.board_total += (k if (self.fallback and k and not s.draw_status) else 0)     # fallback extras so far
        expected_total = self.board_total + sum(x.board_dealing_count for x in st.streets[:self.idx + 1])
        if st.street_return_index is None and st.street_index == self.idx:
            for b in range(st.board_count):
                nb = len(tuple(st.get_board_cards(b)))
                ctx.check(nb == expected_total, 'cards-on-the-wrong-board',
                          lambda: f'street {self.idx}: board {b} holds {nb} cards, prescribed {expected_total}')
        if s.draw_status:
            for i in self.live:
                ctx.check(i in self.discards, 'player-skipped-in-draw')
                got = self.hole.get(i, [])
                ctx.check(len(got) == len(self.discards[i]), 'draw-count', lambda: f'player {i} discarded {len(self.discards[i])} got {len(got)}')
                ctx.check(sorted(got) == sorted(self.discards[i]), 'draw-facing')
                # cards that were kept keep their facing
                for card, status in zip(st.hole_cards[i], st.hole_card_statuses[i]):
                    if card in self.cards_before[i] and self.cards_before[i].count(card) == 1:
                        was = self.up_before[i][self.cards_before[i].index(card)]
                        kept = card not in [c for c in self.discarded_cards.get(i, [])]
                        if kept:
                            ctx.check(status == was, 'kept-card-facing-changed',
                                      lambda: f'player {i} card {card!r}: {was} -> {status}')
            ctx.cover('draw')
        elif self.fallback and k:
            self.fallback_seen = True
            ctx.check(not self.hole, 'hole-cards-dealt-although-deck-cannot-cover')
            ctx.check(self.board == (s.board_dealing_count + k) * self.boards, 'fallback-board-count',
                      lambda: f'{self.board}')
            ctx.cover('fallback')
        else:
            for i in self.live:
                got = self.hole.get(i, [])
                ctx.check(got == list(s.hole_dealing_statuses), 'hole-cards-of-street',
                          lambda: f'street {self.idx} player {i} got {got} prescribed {s.hole_dealing_statuses}')
            ctx.check(self.board == s.board_dealing_count * self.boards, 'board-cards-of-street',
                      lambda: f'street {self.idx}: {self.board} prescribed {s.board_dealing_count}x{self.boards}')
            if k and self.one_at_a_time:
                exp = [i for _ in range(k) for i in self.live]
                ctx.check(self.order == exp, 'dealee-order', lambda: f'{self.order} expected {exp}')
            ctx.cover('street-dealt')
        self.street = None

    one_at_a_time = True


def dealing_pending(st: Any) -> bool:
    return st.can_burn_card() or st.can_deal_hole() or st.can_deal_board() or \
        st.stander_pat_or_discarder_index is not None


def h_deal(ctx: Any, code: str, n: int, sym_decisions: int = 2, manual: str = 'counts', boards: int = 1,
           stacks: Any = None, streets: str = '', explicit: bool = False, deck: str = 'identity',
           mode: str = 'T', draw_masks: bool = True, which: str = 'both', mask_budget: int = 3,
           fixed_mask: int = 0, count_budget: int = 4, partial_show: bool = False, runouts: int = 0,
           explicit_dealee: bool = False, warn: str = '', hole_kind_budget: int = 99,
           forced_folds: int = 0, ask_budget: int = 10 ** 6) -> None:
    C.native_hands()
    C.set_deck_order(deck)
    warnings.simplefilter(warn or ('error' if explicit else 'ignore'))
    dealing = (Automation.CARD_BURNING, Automation.HOLE_DEALING, Automation.BOARD_DEALING)
    autos = tuple(a for a in Automation if manual == 'auto' or a not in dealing)
    if explicit or partial_show:
        autos = tuple(a for a in autos if a != Automation.HOLE_CARDS_SHOWING_OR_MUCKING)
    if runouts:
        autos = tuple(a for a in autos if a != Automation.RUNOUT_COUNT_SELECTION)
    cfg: dict = dict(n=n, stacks=tuple(stacks or (200,) * n), automations=autos, antes=1,
                     mode=Mode.TOURNAMENT if mode == 'T' else Mode.CASH_GAME, starting_board_count=boards)
    if C.is_stud(code):
        cfg.update(bring_in=1, small_bet=2, big_bet=4)
    else:
        cfg['blinds'] = (1, 2)
        if C.uses_small_big(code):
            cfg.update(small_bet=2, big_bet=4)
        else:
            cfg['min_bet'] = 2
    if streets == 'mixed-draw':
        cfg['streets'] = (
            Street(False, (False, True, True, False), 0, False, Opening.POSITION, 2, None),
            Street(True, (), 0, True, Opening.POSITION, 2, None),
            Street(True, (True,), 1, False, Opening.POSITION, 2, None),
        )
    cm = CardMonitor(ctx, exact=not explicit)
    dm = DealMonitor(ctx)
    dm.one_at_a_time = manual not in ('counts', 'late-counts') and not explicit_dealee

    def mon(state: Any, op: Any) -> None:
        if which in ('both', 'cards'):
            cm(state, op)
        if which in ('both', 'deal'):
            dm(state, op)
    C.set_monitor(mon)
    try:
        # the constructor may already deal (manual == 'auto'): begin() needs the pre-state, so the
        # first street is announced from the street tuple before construction
        st = C.call(ctx, C.make_state, code, cfg)
        decisions = 0
        folds_done = 0
        guard = 0
        street_seen = -1
        def ask() -> bool:
            budget['ask'] -= 1
            return budget['ask'] >= 0
        budget = {'ask': ask_budget, 'mask': mask_budget, 'count': count_budget, 'hole_kind': hole_kind_budget}
        while st.status:
            guard += 1
            ctx.check(guard < 600, 'no-termination')
            if dealing_pending(st):
                if st.street_index != street_seen:
                    street_seen = st.street_index
                    if which in ('both', 'deal'):
                        dm.begin(st)
                # betting must not be possible while dealing is incomplete
                ctx.check(st.actor_index is None and not st.can_check_or_call() and not st.can_fold(),
                          'betting-before-dealing-complete')
                if st.stander_pat_or_discarder_index is not None:
                    i = st.stander_pat_or_discarder_index
                    h = list(st.hole_cards[i])
                    if draw_masks and budget['mask'] > 0:
                        budget['mask'] -= 1
                        m = ctx.choice(f'mask{guard}', 4)
                    else:
                        m = fixed_mask
                    cards = [(), tuple(h[:1]), tuple(h[-2:]), tuple(h)][m]
                    if h and all(h.count(c) == 1 for c in h):
                        # a card he holds only once cannot be discarded twice
                        dup = (h[0], h[0])
                        ctx.check(not st.can_stand_pat_or_discard(dup), 'duplicate-discard-accepted', lambda: f'{dup}')
                        foreign = tuple(c for c in st.deck_cards if c)[:1]
                        if foreign:
                            ctx.check(not st.can_stand_pat_or_discard(foreign), 'foreign-discard-accepted')
                    C.call(ctx, st.stand_pat_or_discard, cards)
                elif st.can_burn_card():
                    C.call(ctx, st.burn_card, '??' if explicit and ctx.flag(f'ub{guard}') else None)
                elif st.can_deal_hole():
                    i = st.hole_dealee_index
                    left = len(st.hole_dealing_statuses[i])
                    if explicit:
                        # the last seat always gets engine-chosen (known) cards, so somebody can show
                        kind = (ctx.choice(f'hk{guard}', 4 if warn == 'ignore' else 3)
                                if i != n - 1 and budget['hole_kind'] > 0 else 0)
                        budget['hole_kind'] -= 1
                        if kind == 0:
                            C.call(ctx, st.deal_hole)
                        elif kind == 1:
                            C.call(ctx, st.deal_hole, '??')
                        elif kind == 3 and any(bool(c) for c in st.burn_cards):
                            # a known card taken out of the burn pile (only warned about): it must MOVE
                            C.call(ctx, st.deal_hole, ([c for c in st.burn_cards if c][-1],))
                            ctx.cover('burnt-card-dealt')
                        else:
                            C.call(ctx, st.deal_hole, (st.deck_cards[-1],))
                    elif explicit_dealee:
                        # the dealer serves a NAMED player (any player still owed cards, in any order)
                        owed = [j for j in range(n) if st.hole_dealing_statuses[j]]
                        j = owed[ctx.choice(f'to{guard}', len(owed))]
                        was = len(st.hole_cards[j])
                        op = C.call(ctx, st.deal_hole, None, j)
                        ctx.check(op.player_index == j and len(st.hole_cards[j]) == was + 1, 'card-went-to-another-player',
                                  lambda: f'named {j}, record says {op.player_index}')
                    elif manual == 'counts' and left > 1 and budget['count'] > 0:
                        budget['count'] -= 1
                        C.call(ctx, st.deal_hole, 1 + ctx.choice(f'hc{guard}', left))
                    elif manual == 'late-counts' and left > 1 and len(st.deck_cards) < 6 and budget['count'] > 0:
                        # several engine-chosen cards in ONE call while the deck is (almost) exhausted
                        budget['count'] -= 1
                        C.call(ctx, st.deal_hole, 1 + ctx.choice(f'hc{guard}', left))
                    else:
                        C.call(ctx, st.deal_hole)
                else:
                    left = st.board_dealing_count
                    bk = ctx.choice(f'bk{guard}', 3 if warn == 'ignore' else 2) if explicit else 0
                    known_burns = [c for c in st.burn_cards if c]
                    if bk == 2 and known_burns and len(st.deck_cards) >= left:
                        # the board named explicitly and containing the card just burnt (only warned about):
                        # the card must MOVE from the burn pile to the board
                        C.call(ctx, st.deal_board, tuple([known_burns[-1]] + list(st.deck_cards)[-(left - 1):][:left - 1]))
                        ctx.cover('burnt-card-on-board')
                    elif bk >= 1 and len(st.deck_cards) < left:
                        # the deck cannot cover the street: deck AND reserve are dealable (no warning); the caller
                        # names reserve cards first (burns, then the muck), the rest from the deck
                        pool = [c for c in list(st.burn_cards) + list(st.mucked_cards) + list(st.deck_cards) if c]
                        if len(pool) >= left:
                            C.call(ctx, st.deal_board, tuple(pool[:left]))
                            ctx.cover('explicit-board-from-reserve')
                        else:
                            C.call(ctx, st.deal_board)
                    elif bk >= 1 and len(st.deck_cards) >= left:
                        C.call(ctx, st.deal_board, tuple(list(st.deck_cards)[-left:]))
                        ctx.cover('explicit-board')
                    elif manual == 'counts' and left > 1 and budget['count'] > 0:
                        budget['count'] -= 1
                        C.call(ctx, st.deal_board, 1 + ctx.choice(f'bc{guard}', left))
                    else:
                        C.call(ctx, st.deal_board)
                continue
            if dm.street is not None:
                dm.end(st)
            if runouts and st.can_select_runout_count():
                C.call(ctx, st.select_runout_count, runouts)
                ctx.cover('runouts-selected')
                continue
            if partial_show and st.showdown_index is not None:
                i = st.showdown_index
                k = ctx.choice(f'show{guard}', 3)
                part = tuple(st.hole_cards[i][-1:])
                if k == 1 and st.can_show_or_muck_hole_cards(part):
                    C.call(ctx, st.show_or_muck_hole_cards, part)       # partial show (cash game, not final street)
                    ctx.cover('partial-show')
                elif k == 2:
                    C.call(ctx, st.show_or_muck_hole_cards, True)
                else:
                    C.call(ctx, st.show_or_muck_hole_cards)
                continue
            if explicit and st.showdown_index is not None:
                i = st.showdown_index
                if all(bool(c) for c in st.hole_cards[i]):
                    C.call(ctx, st.show_or_muck_hole_cards, True)
                else:
                    C.call(ctx, st.show_or_muck_hole_cards, False)
                    ctx.cover('mucked-unknown')
                continue
            if st.actor_index is not None:
                if st.can_post_bring_in():
                    C.call(ctx, st.post_bring_in)
                elif forced_folds > folds_done and st.can_fold():
                    folds_done += 1
                    C.call(ctx, st.fold)
                elif decisions < sym_decisions and st.can_fold() and ask() and ctx.flag(f'fold{guard}'):
                    decisions += 1
                    C.call(ctx, st.fold)
                elif decisions < sym_decisions and st.can_complete_bet_or_raise_to() and not st.can_fold() \
                        and ask() and ctx.flag(f'bet{guard}'):
                    decisions += 1
                    C.call(ctx, st.complete_bet_or_raise_to)
                else:
                    C.call(ctx, st.check_or_call)
            else:
                ctx.fail('stuck', lambda: f'{[type(o).__name__ for o in st.operations[-5:]]}')
        if dm.street is not None:
            dm.end(st)
        if which in ('both', 'deal') and sum(1 for x in st.statuses if x) > 1:
            # at the end every board (all run-outs included) holds all its community cards
            total = sum(x.board_dealing_count for x in st.streets)
            for b in range(st.board_count):
                nb = len(tuple(st.get_board_cards(b)))
                ctx.check(nb == total or dm.fallback_seen, 'incomplete-board-at-the-end',
                          lambda: f'board {b} of {st.board_count}: {nb} cards, prescribed {total}')
            ctx.check(st.board_count == boards * max(1, runouts if 'runouts-selected' in ctx.covered else 1),
                      'board-count', lambda: f'{st.board_count}')
        ctx.cover('done')
    finally:
        C.set_monitor(None)


def h_street_validation(ctx: Any) -> None:
    """Street.__post_init__: symbolic ints/bools/lengths against the documented constraints."""
    burn = ctx.flag('burn')
    nh = ctx.choice('nh', 3)
    bc = ctx.int('bc', -2, 3)
    draw = ctx.flag('draw')
    mn = ctx.int('min', -2, 3)
    cap_none = ctx.flag('cap_none')
    cap = None if cap_none else ctx.int('cap', -2, 3)
    bad = (bc < 0) or (nh == 0 and bc == 0 and not draw) or (nh > 0 and draw) or (mn <= 0) or \
        (cap is not None and cap < 0)
    try:
        Street(burn, (False,) * nh, bc, draw, Opening.POSITION, mn, cap)
        ok = True
    except ValueError:
        ok = False
    ctx.check(ok == (not bad), 'street-validation', lambda: f'nh={nh} bc={bc} draw={draw} min={mn} cap={cap}: accepted={ok}')
    ctx.cover('done')


JOBS = [
    # name, params
    ('NT/n3/counts', dict(code='NT', n=3, sym_decisions=3, manual='counts')),
    ('NT/n3/auto', dict(code='NT', n=3, sym_decisions=4, manual='auto')),
    ('PO/n2/2boards/counts', dict(code='PO', n=2, sym_decisions=1, manual='counts', boards=2, count_budget=5)),
    ('NR/n3/one-by-one', dict(code='NR', n=3, sym_decisions=3, manual='one')),
    ('N2L1D/n3/masks', dict(code='N2L1D', n=3, sym_decisions=2, manual='one')),
    ('F2L3D/n4/exhaustion', dict(code='F2L3D', n=4, sym_decisions=0, manual='auto', mask_budget=4, fixed_mask=3)),
    ('F2L3D/n6/exhaustion/counts', dict(code='F2L3D', n=6, sym_decisions=0, manual='late-counts', mask_budget=0, fixed_mask=3,
                                        count_budget=5)),
    ('FB/n5/exhaustion/counts', dict(code='FB', n=5, sym_decisions=0, manual='late-counts', mask_budget=0, fixed_mask=3,
                                     count_budget=5)),
    ('F2L3D/n6/exhaustion', dict(code='F2L3D', n=6, sym_decisions=1, manual='auto', mask_budget=2, fixed_mask=3)),
    ('FB/n3/masks', dict(code='FB', n=3, sym_decisions=1, manual='auto', mask_budget=4)),
    ('F7S/n3/counts', dict(code='F7S', n=3, sym_decisions=2, manual='counts', count_budget=5)),
    ('F7S/n8/exhaustion', dict(code='F7S', n=8, sym_decisions=2, manual='auto', draw_masks=False)),
    ('FR/n8/exhaustion/one-by-one', dict(code='FR', n=8, sym_decisions=1, manual='one')),
    ('mixed-draw/n2', dict(code='NT', n=2, sym_decisions=1, manual='one', streets='mixed-draw')),
    ('NT/n2/allin/partial-show', dict(code='NT', n=2, sym_decisions=0, manual='one', stacks=(3, 3), mode='C',
                                      partial_show=True)),
    ('NT/n2/explicit/warnings-ignored', dict(code='NT', n=2, sym_decisions=0, manual='one', explicit=True, mode='C',
                                             warn='ignore')),
    ('NT/n2/allin/2-runouts', dict(code='NT', n=2, sym_decisions=0, manual='one', stacks=(3, 3), mode='C', runouts=2)),
    ('NT/n3/flop-allin/3-runouts', dict(code='NT', n=3, sym_decisions=0, manual='auto', stacks=(5, 5, 5), mode='C', runouts=3)),
    ('F7S/n2/named-dealee', dict(code='F7S', n=2, sym_decisions=0, manual='one', explicit_dealee=True)),
    ('NT/n3/named-dealee', dict(code='NT', n=3, sym_decisions=0, manual='one', explicit_dealee=True)),
    ('NR/n9/explicit/exhaustion', dict(code='NR', n=9, sym_decisions=3, manual='one', explicit=True, mode='C',
                                       hole_kind_budget=2, forced_folds=2, ask_budget=4)),
    ('NT/n2/explicit', dict(code='NT', n=2, sym_decisions=0, manual='one', explicit=True, mode='C')),
]


MORE_JOBS = [
    # thorough tier: the remaining variants, more players, more symbolic decisions / counts / masks, other deck orders
    ('FT/n4/counts', dict(code='FT', n=4, sym_decisions=2, manual='counts', count_budget=4)),
    ('NS/n3/counts', dict(code='NS', n=3, sym_decisions=3, manual='counts', count_budget=6)),
    ('FO8/n3/counts', dict(code='FO8', n=3, sym_decisions=1, manual='counts', count_budget=4)),
    ('PO/n3/2boards/counts', dict(code='PO', n=3, sym_decisions=1, manual='counts', boards=2, count_budget=6)),
    ('NT/n2/3boards/counts', dict(code='NT', n=2, sym_decisions=1, manual='counts', boards=3, count_budget=6)),
    ('F7S8/n3/counts', dict(code='F7S8', n=3, sym_decisions=3, manual='counts', count_budget=6)),
    ('FR/n4/counts', dict(code='FR', n=4, sym_decisions=1, manual='counts', count_budget=4)),
    ('F7S/n7/many-players', dict(code='F7S', n=7, sym_decisions=3, manual='auto', draw_masks=False)),
    ('F2L3D/n5/masks', dict(code='F2L3D', n=5, sym_decisions=1, manual='auto', mask_budget=5)),
    ('FB/n4/masks', dict(code='FB', n=4, sym_decisions=1, manual='auto', mask_budget=5)),
    ('N2L1D/n6/masks', dict(code='N2L1D', n=6, sym_decisions=1, manual='auto', mask_budget=5)),
    ('NT/n3/counts/reversed', dict(code='NT', n=3, sym_decisions=3, manual='counts', deck='reversed')),
    ('F2L3D/n6/exhaustion/stride7', dict(code='F2L3D', n=6, sym_decisions=1, manual='auto', mask_budget=3, fixed_mask=3,
                                         deck='stride7')),
    ('NT/n3/explicit', dict(code='NT', n=3, sym_decisions=0, manual='one', explicit=True, mode='C', hole_kind_budget=3)),
    ('PO/n2/explicit/warnings-ignored', dict(code='PO', n=2, sym_decisions=0, manual='one', explicit=True, mode='C',
                                             warn='ignore', hole_kind_budget=3)),
    ('NT/n3/allin/2-runouts', dict(code='NT', n=3, sym_decisions=0, manual='one', stacks=(3, 3, 3), mode='C', runouts=2)),
    ('FT/n4/named-dealee', dict(code='FT', n=4, sym_decisions=0, manual='one', explicit_dealee=True)),
]


def _jobs(tier: str, which: str) -> list[dict]:
    out = []
    B = 300 if tier == 'quick' else 900
    for name, p in JOBS + (MORE_JOBS if tier == 'thorough' else []):
        if which == 'deal' and p.get('explicit'):
            continue
        if which == 'cards' and (p.get('runouts') or p.get('explicit_dealee')):
            pass
        cover = ['done']
        if 'partial-show' in name:
            cover.append('partial-show')
        if p.get('explicit'):
            cover.append('explicit-board-from-reserve' if 'exhaustion' in name else 'explicit-board')
        if p.get('warn') == 'ignore':
            cover.append('burnt-card-on-board')
        if 'exhaustion' in name:
            cover.append('replenished' if which == 'cards' else ('fallback' if 'n8' in name else 'draw'))
        out.append(dict(name=name, module='harness.c06', fn='h_deal', traced=False,
                        params=dict(p, which=which), budget_s=B, must_cover=cover))
    return out


def jobs(tier: str, seed: int) -> list[dict]:
    return _jobs(tier, 'cards')
