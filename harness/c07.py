"""C07 - every hand runs to completion through the documented phases, under
every subset of the 11 automations.  C09 (same machinery) compares every
automated run with its un-automated twin."""
from __future__ import annotations

import warnings
from typing import Any

from harness import common as C
from harness.manual import AUTOMATION_OF, MECH, at_player_decision, decide
from pokerkit.state import Automation, Mode

META = {
    'explanation': (
        'Automation membership is symbolic: State.automations is a tuple subclass whose __contains__ asks the '
        'solver (11 boolean variables, decided lazily when the engine consults them), so one harness covers all 2^11 '
        'subsets; infeasible/irrelevant bits are never forked. At every step all sixteen can_* queries are evaluated: '
        'exactly one phase family is enabled while the hand is live, none when it is over; the logged operations follow '
        'the documented phase order; the number of operations is bounded; no exception escapes the constructor or a '
        'legal operation. A second family keeps a few bits symbolic together with SYMBOLIC stacks (traced execution).'),
    'functions': ['State.__post_init__', 'all _begin_*/_update_*/_end_* phase chaining', 'all can_* queries',
                  'all operations reached by the scripts'],
    'assumptions': ['scripted player decisions (f/c/r/R/b/s/d), chips concrete in the 2^11 family (real code runs natively, the solver decides the subset bits)',
                    'hands reaching a showdown are known (cards dealt from the stub-ordered deck)',
                    'pending mechanical steps are performed in the documented order (alternative: reverse) with default arguments'],
    'bounds': {'quick': 'NT/FT/PO(2 boards)/F7S/N2L1D/FO8, n=2..3, 3-5 scripts each incl. everybody-all-in, fold-out and short stacks; cash and tournament; all 2^11 subsets',
               'thorough': 'all 12 variants, more scripts, symbolic stacks with 4 symbolic bits'},
    'outside': 'decision sequences other than the scripts; user-chosen arguments for mechanical steps',
}

FAMILIES = {
    'ante': ['can_post_ante'], 'collect': ['can_collect_bets'], 'blind': ['can_post_blind_or_straddle'],
    'deal': ['can_burn_card', 'can_deal_hole', 'can_deal_board', 'can_stand_pat_or_discard'],
    'bet': ['can_fold', 'can_check_or_call', 'can_post_bring_in', 'can_complete_bet_or_raise_to'],
    'showdown': ['can_select_runout_count', 'can_show_or_muck_hole_cards'],
    'kill': ['can_kill_hand'], 'push': ['can_push_chips'], 'pull': ['can_pull_chips'],
}
PHASE_OF_OP = {
    'AntePosting': 'ante', 'BetCollection': 'collect', 'BlindOrStraddlePosting': 'blind',
    'CardBurning': 'deal', 'HoleDealing': 'deal', 'BoardDealing': 'deal',
    'StandingPatOrDiscarding': 'deal', 'Folding': 'bet', 'CheckingOrCalling': 'bet',
    'BringInPosting': 'bet', 'CompletionBettingOrRaisingTo': 'bet',
    'RunoutCountSelection': 'showdown', 'HoleCardsShowingOrMucking': 'showdown',
    'HandKilling': 'kill', 'ChipsPushing': 'push', 'ChipsPulling': 'pull',
}
# documented order: antes, collection, blinds, per street (dealing, betting, collection),
# showdown, killing, pushing, pulling; all-in run-outs return to dealing after showdown/collection
NEXT = {
    None: {'ante', 'blind', 'deal'},
    'ante': {'ante', 'collect', 'blind', 'deal'},
    'collect': {'blind', 'deal', 'showdown', 'kill', 'push'},
    'blind': {'blind', 'deal'},
    'deal': {'deal', 'bet', 'collect', 'showdown', 'kill', 'push'},
    'bet': {'bet', 'collect', 'deal', 'showdown', 'kill', 'push'},
    'showdown': {'showdown', 'deal', 'kill', 'push'},
    'kill': {'kill', 'push'},
    'push': {'push', 'pull'},
    'pull': {'pull'},
}


class SymAutomations(tuple):
    """tuple whose membership test is answered by the solver (cached per path)."""

    def __new__(cls, ctx: Any, fixed: Any = None) -> 'SymAutomations':
        obj = super().__new__(cls, ())
        obj.ctx = ctx
        obj.cache = dict(fixed or {})
        return obj

    def __contains__(self, a: Any) -> bool:
        name = Automation(a).name
        if name not in self.cache:
            self.cache[name] = self.ctx.flag('auto_' + name)
        return self.cache[name]

    def __deepcopy__(self, memo: Any) -> 'SymAutomations':
        return self

    def __reduce__(self) -> Any:
        return (tuple, ((),))


def base_cfg(code: str, n: int, stacks: Any, mode: str, boards: int, antes: Any = 1) -> dict:
    cfg: dict = dict(n=n, stacks=tuple(stacks), mode=Mode.TOURNAMENT if mode == 'T' else Mode.CASH_GAME,
                     starting_board_count=boards, antes=antes if isinstance(antes, int) else tuple(antes),
                     ante_trimming_status=isinstance(antes, int))
    if C.is_stud(code):
        cfg.update(bring_in=1, small_bet=2, big_bet=4)
    else:
        cfg['blinds'] = (1, 2)
        if C.uses_small_big(code):
            cfg.update(small_bet=2, big_bet=4)
        else:
            cfg['min_bet'] = 2
    return cfg


def enabled_families(st: Any) -> list:
    fams = []
    for fam, qs in FAMILIES.items():
        for q in qs:
            if getattr(st, q)():
                fams.append(fam)
                break
    return fams


def check_phase(ctx: Any, st: Any, where: str) -> None:
    try:
        fams = enabled_families(st)
    except Exception as e:
        C.reraise_control(e)
        ctx.fail('query-raised', f'{where}: {type(e).__name__}: {e}')
    if st.status:
        ctx.check(len(fams) == 1, 'not-exactly-one-phase', lambda: f'{where}: {fams} ops={[type(o).__name__ for o in st.operations[-4:]]}')
    else:
        ctx.check(not fams, 'phase-enabled-after-the-hand', lambda: f'{where}: {fams}')


def check_order(ctx: Any, st: Any, voluntary: Any = ()) -> None:
    prev = None
    for op in st.operations:
        ph = PHASE_OF_OP.get(type(op).__name__)
        if ph is None or any(op is v for v in voluntary):
            # (a winner tabling his hand after everybody folded is outside the phase sequence: no showdown phase exists)
            continue
        ctx.check(ph in NEXT[prev], 'phase-order', lambda: f'{prev} -> {ph} at {type(op).__name__}')
        prev = ph


def pending(st: Any, autos: Any, reverse: bool = False) -> Any:
    """next mechanical step the user has to perform (the un-automated ones)."""
    order = list(reversed(MECH)) if reverse else MECH
    for op, can in order:
        if getattr(st, can)():
            return op
    return None


def not_left_to_user(ctx: Any, st: Any, op: str) -> None:
    """an automated step is performed by the engine: it must never be pending for the user
    (dealing steps wait for a manual burn, which is the documented exception)."""
    auto = getattr(Automation, AUTOMATION_OF[op])
    if auto in st.automations:
        if op in ('deal_hole', 'deal_board') and st.card_burning_status:
            return
        ctx.fail('automated-step-left-to-the-user', lambda: f'{op} pending although {auto.name} is automated; last ops {[type(o).__name__ for o in st.operations[-4:]]}')


def run_hand(ctx: Any, st: Any, script: str, reverse: bool, limit: int, oot: bool = False) -> None:
    k = 0
    steps = 0
    oot_mucked = False
    shown_voluntarily: list = []
    voluntary_ops: list = []
    check_phase(ctx, st, 'after construction')
    while st.status:
        steps += 1
        if steps > limit:
            ctx.fail('no-termination', f'more than {limit} steps')
        n_ops = len(st.operations)
        if at_player_decision(st):
            ch = script[k] if k < len(script) else 'c'
            k += 1
            C.call(ctx, decide, st, ch)
        else:
            op = pending(st, None, reverse)
            if op is None:
                ctx.fail('stuck', lambda: f'hand not over, nothing available; last ops {[type(o).__name__ for o in st.operations[-4:]]}')
            not_left_to_user(ctx, st, op)
            if op in ('deal_hole', 'deal_board'):
                # progress: a dealing of NO cards is not a legal operation (it could be repeated for ever)
                for empty in ((), '', 0):
                    ctx.check(not getattr(st, 'can_' + op)(empty), 'legal-operation-without-progress',
                              lambda: f'{op}({empty!r}) is accepted')
            if st.street is None and op in ('push_chips', 'pull_chips') and not shown_voluntarily \
                    and sum(1 for x in st.statuses if x) == 1:
                # everybody else folded: the winner may still table his hand (explicit seat); this is a legal
                # operation that must work and leave the hand in the same phase
                w = list(st.statuses).index(True)
                shown_voluntarily.append(w)          # asked once per hand
                if st.can_show_or_muck_hole_cards(True, w) and ctx.flag('voluntary-show'):
                    voluntary_ops.append(C.call(ctx, st.show_or_muck_hole_cards, True, w))
                    ctx.check(pending(st, None, reverse) == op, 'voluntary-show-changed-the-phase',
                              lambda: f'{op} -> {pending(st, None, reverse)}')
                    ctx.cover('voluntary-show')
                    check_phase(ctx, st, f'step {steps} voluntary show')
                    continue
            if oot and op == 'show_or_muck_hole_cards' and len(st.showdown_indices) >= 2 \
                    and ctx.flag(f'oot{len(st.operations)}'):
                # the documented player_index argument: a seat other than the one whose turn it is tables or
                # (once per hand, at a final-street showdown nobody is all-in at) mucks; the hand must go on
                j = st.showdown_indices[-1]
                may_muck = (not oot_mucked and not st.all_in_status and st.street is st.streets[-1])
                kind = ctx.choice(f'ootk{len(st.operations)}', 3 if may_muck else 2)
                status = (None, True, False)[kind]
                if st.can_show_or_muck_hole_cards(status, j):
                    C.call(ctx, st.show_or_muck_hole_cards, status, j)
                    oot_mucked = oot_mucked or kind == 2
                    ctx.cover('out-of-turn')
                    ctx.check(len(st.operations) > n_ops, 'no-progress')
                    check_phase(ctx, st, f'step {steps} out of turn')
                    continue
            if op == 'select_runout_count':
                # the players' choice: any preference is a legal operation
                if st.player_count == 2:
                    p = ctx.choice(f'pref{len(st.operations)}', 4)
                else:
                    p = 2 * ctx.choice(f'pref{len(st.operations)}', 2)
                C.call(ctx, st.select_runout_count, None if p == 0 else p)
            else:
                C.call(ctx, getattr(st, op))
        ctx.check(len(st.operations) > n_ops, 'no-progress')
        ctx.ops += len(st.operations) - n_ops
        check_phase(ctx, st, f'step {steps}')
    check_order(ctx, st, voluntary_ops)
    ctx.check(len(st.operations) <= limit, 'too-many-operations')


def h_phases(ctx: Any, code: str, n: int, script: str, stacks: Any, mode: str = 'C', boards: int = 1,
             deck: str = 'identity', reverse: bool = False, fixed: Any = None, sym_stack: int = -1,
             antes: Any = 1, oot: bool = False) -> None:
    C.native_hands()
    C.set_deck_order(deck)
    warnings.simplefilter('ignore')
    stacks = list(stacks)
    if sym_stack >= 0:
        stacks[sym_stack] = ctx.int('s', 1, 200)
    cfg = base_cfg(code, n, stacks, mode, boards, antes)
    autos = SymAutomations(ctx, fixed)
    cfg['automations'] = autos
    try:
        st = C.make_state(code, cfg)
    except Exception as e:
        C.reraise_control(e)
        ctx.fail('constructor-raised', lambda: f'{type(e).__name__}: {e} subset={autos.cache}')
    run_hand(ctx, st, script, reverse, 80 + 60 * n, oot)
    ctx.check(not st.status, 'not-terminal')
    ctx.cover('terminal')


def twin_play(ctx: Any, st: Any, script: str, autos: Any, limit: int) -> None:
    """no automation: the user performs every automated step (default arguments) as soon as it
    is available, the remaining mechanical steps afterwards, decisions from the script."""
    k = 0
    steps = 0
    while st.status:
        steps += 1
        if steps > limit:
            ctx.fail('twin-no-termination')
        first = None
        other = None
        for op, can in MECH:
            if getattr(st, can)():
                if getattr(Automation, AUTOMATION_OF[op]) in autos:
                    if first is None:
                        first = op
                elif other is None:
                    other = op
        if first is not None:
            getattr(st, first)()
        elif at_player_decision(st):
            ch = script[k] if k < len(script) else 'c'
            k += 1
            decide(st, ch)
        elif other is not None:
            getattr(st, other)()
        else:
            ctx.fail('twin-stuck')


def auto_play(ctx: Any, st: Any, script: str, limit: int) -> None:
    k = 0
    steps = 0
    while st.status:
        steps += 1
        if steps > limit:
            ctx.fail('no-termination')
        if at_player_decision(st):
            ch = script[k] if k < len(script) else 'c'
            k += 1
            C.call(ctx, decide, st, ch)
        else:
            op = pending(st, None)
            if op is None:
                ctx.fail('stuck')
            not_left_to_user(ctx, st, op)
            C.call(ctx, getattr(st, op))


def h_equiv(ctx: Any, code: str, n: int, script: str, stacks: Any, mode: str = 'C', boards: int = 1,
            deck: str = 'identity', fixed: Any = None, sym_stack: int = -1, antes: Any = 1) -> None:
    """C09: automated run == un-automated twin (operations, players, amounts, cards, final state)."""
    from harness.c08 import snapshot, same
    C.native_hands()
    C.set_deck_order(deck)
    warnings.simplefilter('ignore')
    stacks = list(stacks)
    if sym_stack >= 0:
        stacks[sym_stack] = ctx.int('s', 1, 200)
    autos = SymAutomations(ctx, fixed)
    cfg = base_cfg(code, n, stacks, mode, boards, antes)
    a = C.call(ctx, C.make_state, code, dict(cfg, automations=autos))
    auto_play(ctx, a, script, 80 + 60 * n)
    b = C.make_state(code, dict(cfg, automations=()))
    twin_play(ctx, b, script, autos, 80 + 60 * n)
    ops_a, ops_b = a.operations, b.operations
    ctx.check(len(ops_a) == len(ops_b), 'operation-count', lambda: f'{[type(o).__name__ for o in ops_a]} vs {[type(o).__name__ for o in ops_b]} subset={autos.cache}')
    for x, y in zip(ops_a, ops_b):
        ctx.check(type(x) is type(y), 'operation-type', lambda: f'{x} vs {y} subset={autos.cache}')
        ctx.check(same(_op_leaves(x), _op_leaves(y)), 'operation-fields', lambda: f'{x} vs {y} subset={autos.cache}')
    sa, sb = snapshot(a), snapshot(b)
    ctx.check(same(sa, sb), 'final-state', lambda: f'subset={autos.cache}')
    ctx.cover('compared')


def _op_leaves(op: Any) -> list:
    from harness.c08 import leaves
    out: list = []
    leaves(op, out)
    return out


CASES = [
    # code, n, stacks, boards, scripts[, antes]
    ('NT', 2, (50, 50), 1, ['cc', 'f', 'Rc', 'rcf', 'crc']),
    ('NT', 2, (3, 50), 1, ['cc'], (0, 2)),       # big-blind ante, short big blind
    ('NT', 2, (50, 2), 1, ['cc'], (0, 2)),       # big-blind ante, short small blind
    ('NT', 3, (2, 3, 50), 1, ['cc'], (0, 2, 0)),
    ('NT', 2, (5, 1), 1, ['c'], 0),                # the forced bets alone end the betting (small blind all-in for less)
    ('NT', 3, (50, 2, 50), 1, ['cc'], 2),          # the big blind is all-in from the ante: seat 0 is the only blind poster
    ('NT', 3, (20, 50, 50), 1, ['fRr', 'fRc']),  # a folded player keeps chips, the shover is covered
    ('F7S', 2, (3, 3), 1, ['brc', 'rc']),         # stud: everybody all-in on third street
    ('FR', 3, (3, 9, 3), 1, ['brcc']),
    ('NT', 3, (50, 20, 5), 1, ['ccc', 'Rcc', 'Rcf', 'ff', 'rRcc']),
    ('FT', 2, (9, 30), 1, ['crrc', 'rrrrc', 'cc']),
    ('PO', 2, (40, 40), 2, ['cc', 'Rc']),
    ('F7S', 2, (30, 8), 1, ['bc', 'rc', 'bcrcf', 'brrrc']),
    ('N2L1D', 2, (40, 40), 1, ['ccds', 'Rc', 'rcsdrc']),
    ('FO8', 3, (40, 12, 40), 1, ['ccc', 'rcc']),
]
MORE = [
    ('NS', 2, (40, 25), 1, ['cc', 'Rc']), ('NR', 2, (40, 25), 1, ['cc', 'Rc']),
    ('F7S8', 3, (30, 8, 30), 1, ['bcc', 'rcc']), ('FR', 2, (30, 8), 1, ['bc', 'rc']),
    ('F2L3D', 2, (30, 30), 1, ['ccdsdsds', 'rcc']), ('FB', 2, (30, 9), 1, ['ccdd', 'rrc']),
]


def _jobs(fn: str, tier: str, cover: list) -> list[dict]:
    out = []
    B = 300 if tier == 'quick' else 900
    cases = CASES + (MORE if tier == 'thorough' else [])
    for case in cases:
        code, n, stacks, boards, scripts = case[:5]
        antes = case[5] if len(case) > 5 else 1
        for script in scripts:
            for mode in ('C', 'T'):
                if tier == 'quick' and mode == 'T' and script not in ('Rc', 'Rcc', 'ccc', 'cc', 'bc', 'crrc'):
                    continue
                tag = '/stacks' + '-'.join(map(str, stacks)) + ('' if antes == 1 else '/antes' + ('-'.join(map(str, antes)) if isinstance(antes, tuple) else str(antes)))
                out.append(dict(name=f'{code}/n{n}/{script}/{mode}{tag}', fn=fn, traced=False,
                                params=dict(code=code, n=n, script=script, stacks=stacks, mode=mode,
                                            boards=boards, antes=antes),
                                budget_s=B, must_cover=cover))
    # symbolic stack + 3 symbolic automation bits (traced); the equivalence harness runs every hand twice, so in the
    # quick tier it keeps 1 bit symbolic (measured: 2 bits > 600 paths / 600 CPU-s, 3 bits > 1 000 paths / 900 CPU-s there)
    fixed = {a.name: True for a in Automation}
    free = ('CARD_BURNING', 'HOLE_CARDS_SHOWING_OR_MUCKING', 'RUNOUT_COUNT_SELECTION')
    for nm in (free[:1] if (fn == 'h_equiv' and tier == 'quick') else free):
        fixed.pop(nm)
    sym_cases = [('NT', 2, (50, 50), 'Rc')]
    if tier == 'thorough':
        sym_cases += [('NT', 3, (50, 20, 5), 'Rcc'), ('F7S', 2, (30, 8), 'bc')]
    for code, n, stacks, script in sym_cases:
        out.append(dict(name=f'sym-stack/{code}/n{n}/{script}', fn=fn,
                        params=dict(code=code, n=n, script=script, stacks=stacks, mode='C', fixed=fixed,
                                    sym_stack=n - 1),
                        budget_s=max(B, 900 if fn == 'h_equiv' else 600), must_cover=cover, prio=9))
    allon = {a.name: True for a in Automation}
    for seat in (0, 1):
        out.append(dict(name=f'sym-stack/NT/n2/cc/bb-ante/seat{seat}', fn=fn,
                        params=dict(code='NT', n=2, script='cc', stacks=(50, 50), mode='T', fixed=allon,
                                    sym_stack=seat, antes=(0, 2)),
                        budget_s=max(B, 600), must_cover=cover, prio=8))
    return out


def jobs(tier: str, seed: int) -> list[dict]:
    out = _jobs('h_phases', tier, ['terminal'])
    # showdown out of turn (explicit seat): showing automation off, the other ten bits symbolic
    off = {'HOLE_CARDS_SHOWING_OR_MUCKING': False}
    for code, n, stacks, script, mode in (('NT', 3, (50, 50, 50), 'ccc', 'T'), ('NT', 3, (50, 50, 50), 'ccc', 'C'),
                                          ('F7S', 3, (40, 40, 40), 'bcc', 'C'), ('NT', 3, (50, 20, 5), 'Rcc', 'C')):
        out.append(dict(name=f'out-of-turn/{code}/n{n}/{script}/{mode}', fn='h_phases', traced=False,
                        params=dict(code=code, n=n, script=script, stacks=stacks, mode=mode, fixed=off, oot=True),
                        budget_s=600 if tier == 'quick' else 1200, must_cover=['terminal', 'out-of-turn']))
    if tier == 'thorough':
        for j in list(out):
            if j.get('traced') is False:
                jj = dict(j, name=j['name'] + '/reverse', params=dict(j['params'], reverse=True))
                out.append(jj)
    return out
