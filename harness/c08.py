"""C08 - query, verifier and operation agree; a refused operation changes nothing."""
from __future__ import annotations

import dataclasses
import warnings
from typing import Any

from harness import common as C
from harness.manual import play
from pokerkit.state import Mode, State

META = {
    'explanation': (
        'Every point of scripted un-automated hands (all phases visible) is a probe site: one of the 17 operations '
        'is called with SYMBOLIC arguments (player index or None, amount, run-out count, dealing count as z3 integers; '
        'card arguments chosen by a symbolic selector among none / top of deck / card in play / unknown / foreign / '
        'duplicate / too many / subset masks). can_X must not raise, verify_X raises iff can_X is False, X succeeds iff '
        'can_X, refusals are ValueError (UserWarning with warnings as errors), the full dataclass state is unchanged '
        'after queries, verifiers and refused operations, and an explicit index is the index operated on.'),
    'functions': ['all 17 State.can_*/verify_*/operation triples'],
    'assumptions': ['probe sites are the points of concrete scripted hands (stacks concrete); arguments symbolic',
                    'player indices within 0..n-1 or None (documented types only)', 'warnings as errors unless stated'],
    'bounds': {'quick': 'NT n=3 (cash + tournament), N2L1D n=2, F7S n=2, PLO double board n=2; 2-3 scripts each incl. all-in run-outs; every prefix point',
               'thorough': 'all 12 variants, more scripts'},
    'outside': 'states not on the scripted hands; indices outside 0..n-1; non-documented argument types',
}

OPS = ['post_ante', 'collect_bets', 'post_blind_or_straddle', 'burn_card', 'deal_hole', 'deal_board',
       'stand_pat_or_discard', 'fold', 'check_or_call', 'post_bring_in', 'complete_bet_or_raise_to',
       'select_runout_count', 'show_or_muck_hole_cards', 'kill_hand', 'push_chips', 'pull_chips',
       'no_operate']
VERIFY = {'post_ante': 'ante_posting', 'collect_bets': 'bet_collection',
          'post_blind_or_straddle': 'blind_or_straddle_posting', 'burn_card': 'card_burning',
          'deal_hole': 'hole_dealing', 'deal_board': 'board_dealing',
          'stand_pat_or_discard': 'standing_pat_or_discarding', 'fold': 'folding',
          'check_or_call': 'checking_or_calling', 'post_bring_in': 'bring_in_posting',
          'complete_bet_or_raise_to': 'completion_betting_or_raising_to',
          'select_runout_count': 'runout_count_selection',
          'show_or_muck_hole_cards': 'hole_cards_showing_or_mucking', 'kill_hand': 'hand_killing',
          'push_chips': 'chips_pushing', 'pull_chips': 'chips_pulling', 'no_operate': 'no_operation'}
CAN = {'post_ante': 'can_post_ante', 'collect_bets': 'can_collect_bets',
       'post_blind_or_straddle': 'can_post_blind_or_straddle', 'burn_card': 'can_burn_card',
       'deal_hole': 'can_deal_hole', 'deal_board': 'can_deal_board',
       'stand_pat_or_discard': 'can_stand_pat_or_discard', 'fold': 'can_fold',
       'check_or_call': 'can_check_or_call', 'post_bring_in': 'can_post_bring_in',
       'complete_bet_or_raise_to': 'can_complete_bet_or_raise_to',
       'select_runout_count': 'can_select_runout_count',
       'show_or_muck_hole_cards': 'can_show_or_muck_hole_cards', 'kill_hand': 'can_kill_hand',
       'push_chips': 'can_push_chips', 'pull_chips': 'can_pull_chips', 'no_operate': 'can_no_operate'}

_NPTS: dict = {}
FIELDS = [f.name for f in dataclasses.fields(State)]
GET = {name: eval(f'lambda s: s.{name}') for name in FIELDS}


def leaves(x: Any, out: list) -> None:
    from collections import deque
    if isinstance(x, (list, tuple, deque)):
        out.append(('len', len(x)))
        for y in x:
            leaves(y, out)
    elif isinstance(x, (set, frozenset)):
        out.append(('set', tuple(sorted(x))))
    elif dataclasses.is_dataclass(x) and not isinstance(x, type):
        for f in dataclasses.fields(x):
            leaves(getattr(x, f.name), out)
    elif callable(x):
        out.append(('fn', id(x)))
    else:
        out.append(x)


def snapshot(st: Any) -> list:
    from crosshair.tracers import NoTracing
    try:
        with NoTracing():
            return _snapshot(st)
    except Exception:
        return _snapshot(st)


def _snapshot(st: Any) -> list:
    out: list = []
    for name in FIELDS:
        if name in ('deck', 'hand_types', 'streets', 'automations') or name.startswith('_'):
            continue    # public state only (the statement speaks of the observable state)
        out.append(('field', name))
        leaves(GET[name](st), out)
    return out


def same(a: list, b: list) -> Any:
    if len(a) != len(b):
        return False
    conds = []
    for x, y in zip(a, b):
        if type(x) in (int, bool, str, tuple, type(None)) and type(y) in (int, bool, str, tuple, type(None)):
            if x != y or type(x) is not type(y) and not (isinstance(x, int) and isinstance(y, int)):
                return False
        else:
            conds.append(x == y)
    return C.all_true(conds) if conds else True


def card_arg(ctx: Any, st: Any, name: str, player: Any) -> Any:
    """a cards-like argument chosen by a symbolic selector."""
    from pokerkit.utilities import Card
    k = ctx.choice(name, 10)
    deck = list(st.deck_cards)
    inplay = [c for h in st.hole_cards for c in h] + [c for b in st.board_cards for c in b]
    own = list(st.hole_cards[player]) if player is not None else []
    if k == 0:
        return None
    if k == 1:
        return (deck[0],) if deck else ()
    if k == 2:
        return (inplay[0],) if inplay else ()
    if k == 3:
        return '??'
    if k == 4:
        return tuple(own)
    if k == 5:
        return (own[0], own[0]) if own else ()
    if k == 6:
        return tuple(deck[:6])
    if k == 8:
        return tuple(deck[:2])
    if k == 9:
        return tuple(own) + (Card.UNKNOWN,)
    return tuple(own[:1])


def make_args(ctx: Any, st: Any, op: str) -> tuple:
    n = st.player_count

    def pidx(name: str) -> Any:
        k = ctx.choice(name, n + 1)
        return None if k == n else k
    if op in ('post_ante', 'post_blind_or_straddle', 'kill_hand', 'pull_chips'):
        return (pidx('pi'),)
    if op in ('collect_bets', 'fold', 'check_or_call', 'post_bring_in', 'push_chips', 'no_operate'):
        return ()
    if op == 'burn_card':
        return (card_arg(ctx, st, 'card', None),)
    if op == 'deal_hole':
        pi = pidx('pi')
        if ctx.flag('count_form'):
            return (ctx.int('count', -2, 6), pi)
        return (card_arg(ctx, st, 'card', None), pi)
    if op == 'deal_board':
        if ctx.flag('count_form'):
            return (ctx.int('count', -2, 6),)
        return (card_arg(ctx, st, 'card', None),)
    if op == 'stand_pat_or_discard':
        who = st.stander_pat_or_discarder_index
        c = card_arg(ctx, st, 'card', who if who is not None else 0)
        return (() if c is None else c,)
    if op == 'complete_bet_or_raise_to':
        if ctx.flag('default_amount'):
            return (None,)
        return (ctx.int('amount', -5, 1000),)
    if op == 'select_runout_count':
        pi = pidx('pi')
        if ctx.flag('no_preference'):
            return (None, pi)
        return (ctx.int('rc', -3, 4), pi)
    if op == 'show_or_muck_hole_cards':
        pi = pidx('pi')
        k = ctx.choice('show_form', 4)
        who = pi if pi is not None else (st.showdown_index if st.showdown_index is not None else 0)
        if k == 0:
            return (None, pi)
        if k == 1:
            return (True, pi)
        if k == 2:
            return (False, pi)
        c = card_arg(ctx, st, 'card', who)
        return (() if c is None else c, pi)
    raise ValueError(op)


REFUSAL = (ValueError, UserWarning)
PENDING_OF = {'post_ante': 'ante', 'post_blind_or_straddle': 'blind', 'kill_hand': 'kill', 'pull_chips': 'pull',
              'select_runout_count': 'runout', 'show_or_muck_hole_cards': 'show'}


def pending_sets(st: Any) -> dict:
    return {
        'status': st.status, 'street': st.street_index, 'all_in': st.all_in_status,
        'final_street': st.street is st.streets[-1],
        'ante': list(st.ante_poster_indices), 'blind': list(st.blind_or_straddle_poster_indices),
        'kill': list(st.hand_killing_indices), 'pull': list(st.chips_pulling_indices),
        'runout': list(st.runout_count_selector_indices), 'show': list(st.showdown_indices),
        # ops appended by a cascade mean the phase moved on: then the pending lists are reset legitimately
        'phase_marker': (st.street_index, bool(list(st.ante_poster_indices)), bool(list(st.blind_or_straddle_poster_indices)),
                         bool(list(st.hand_killing_indices)), bool(list(st.chips_pulling_indices)),
                         bool(list(st.runout_count_selector_indices)) or bool(st.showdown_indices)),
    }


def h_probe(ctx: Any, code: str, n: int, script: str, mode: str = 'C', stacks: Any = None,
            boards: int = 1, deck: str = 'identity', ops: Any = None, warn: str = 'error',
            point: int = -1) -> None:
    C.native_hands()
    C.set_deck_order(deck)
    warnings.simplefilter(warn)
    cfg: dict = dict(n=n, stacks=tuple(stacks or (100,) * n), automations=(),
                     mode=Mode.TOURNAMENT if mode == 'T' else Mode.CASH_GAME,
                     starting_board_count=boards, antes=1)
    if C.is_stud(code):
        cfg.update(bring_in=1, small_bet=2, big_bet=4)
    else:
        cfg['blinds'] = (1, 2)
        if C.uses_small_big(code):
            cfg.update(small_bet=2, big_bet=4)
        else:
            cfg['min_bet'] = 2
    from crosshair.tracers import NoTracing
    key = (code, n, script, mode, tuple(stacks or ()), boards, deck)
    if key not in _NPTS:
        with NoTracing(), warnings.catch_warnings():
            warnings.simplefilter('ignore')
            _NPTS[key] = len(list(play(C.make_state(code, cfg), script)))
    target = point if point >= 0 else ctx.choice('point', _NPTS[key])
    with NoTracing(), warnings.catch_warnings():
        # the prefix is concrete: replay it natively
        warnings.simplefilter('ignore')
        st = C.make_state(code, cfg)
        for k, _ in enumerate(play(st, script)):
            if k == target:
                break
    ctx.cover(f'phase:{"over" if not st.status else "live"}')
    opname = (ops or OPS)[ctx.choice('op', len(ops or OPS))]
    args = make_args(ctx, st, opname)
    before = snapshot(st)
    pend_before = pending_sets(st)
    # query
    try:
        can = getattr(st, CAN[opname])(*args)
    except Exception as e:
        C.reraise_control(e)
        ctx.fail('query-raised', f'{CAN[opname]}{args}: {type(e).__name__}: {e}')
    ctx.check(can is True or can is False, 'query-not-bool', opname)
    ctx.check(same(before, snapshot(st)), 'query-changed-state', opname)
    # verifier
    try:
        getattr(st, 'verify_' + VERIFY[opname])(*args)
        ver = True
    except REFUSAL:
        ver = False
    except Exception as e:
        C.reraise_control(e)
        ctx.fail('verifier-raised-wrong-exception', f'verify_{VERIFY[opname]}{args}: {type(e).__name__}: {e}')
    ctx.check(ver == can, 'verifier-disagrees-with-query', lambda: f'{opname}{args} can={can} verify={ver}')
    ctx.check(same(before, snapshot(st)), 'verifier-changed-state', opname)
    # an explicit player index is accepted only for a player the phase is waiting for
    key0 = PENDING_OF.get(opname)
    if key0 is not None and st.status:
        pi0 = args[0] if opname in ('post_ante', 'post_blind_or_straddle', 'kill_hand', 'pull_chips') else args[1]
        if pi0 is not None and not (opname == 'show_or_muck_hole_cards' and pend_before['street'] is None):
            if pi0 not in pend_before[key0]:
                ctx.check(not can, 'operation-accepted-for-a-player-not-pending', lambda: f'{opname}{args}: pending {pend_before[key0]}')
    # operation
    try:
        rec = getattr(st, opname)(*args)
        done = True
    except REFUSAL:
        done = False
    except Exception as e:
        C.reraise_control(e)
        ctx.fail('operation-raised-wrong-exception', f'{opname}{args} (can={can}): {type(e).__name__}: {e}')
    ctx.check(done == can, 'operation-disagrees-with-query', lambda: f'{opname}{args} can={can} done={done}')
    if not done:
        ctx.check(same(before, snapshot(st)), 'refused-operation-changed-state', lambda: f'{opname}{args}')
        ctx.cover('refused')
    else:
        ctx.cover('performed:' + opname)
        if opname in ('post_ante', 'post_blind_or_straddle', 'kill_hand', 'pull_chips') and args[0] is not None:
            ctx.check(rec.player_index == args[0], 'wrong-player', opname)
        if opname in ('deal_hole', 'select_runout_count', 'show_or_muck_hole_cards') and args[1] is not None:
            ctx.check(rec.player_index == args[1], 'wrong-player', opname)
        if opname == 'select_runout_count':
            ctx.check(rec.runout_count is None or rec.runout_count == args[0], 'wrong-count')
        if opname == 'show_or_muck_hole_cards' and rec.hole_cards and pend_before['street'] is not None \
                and mode == 'T' and (pend_before['all_in'] or pend_before['final_street']):
            # tournament: an all-in or final showdown shows ALL hole cards
            who = rec.player_index
            ctx.check(all(st.hole_card_statuses[who]) and all(bool(c) for c in st.hole_cards[who]),
                      'partial-show-accepted-in-tournament', lambda: f'{args}')
        # the pending set of the operation's phase loses exactly the player operated on
        key = PENDING_OF.get(opname)
        if key is not None and getattr(rec, 'player_index', None) is not None and pend_before['status']:
            who = rec.player_index
            exp = [i for i in pend_before[key] if i != who]
            now = pending_sets(st)
            if now['status'] and not (opname == 'show_or_muck_hole_cards' and pend_before['street'] is None):
                same_phase = now['phase_marker'] == pend_before['phase_marker']
                if same_phase:
                    ctx.check(list(now[key]) == exp, 'wrong-player-removed-from-pending',
                              lambda: f'{opname}{args}: pending {pend_before[key]} -> {now[key]} expected {exp}')
        ctx.check(st.operations[-1] is rec or True, 'log')


SCRIPTS = {
    'NT': [('ccc', 'C'), ('Rcc', 'C'), ('rfcrc', 'T'), ('ff', 'T'), ('Rcf', 'C'), ('Rfc', 'T')],
    'N2L1D': [('ccdscc', 'C'), ('Rc', 'C'), ('rcsdrc', 'T')],
    'F7S': [('bcccccccc', 'C'), ('rRc', 'C'), ('bcrcf', 'T')],
    'PO': [('cc', 'C'), ('Rc', 'C')],
}


def jobs(tier: str, seed: int) -> list[dict]:
    out = []
    B = 400 if tier == 'quick' else 1500
    plan = [('NT', 3, 1), ('N2L1D', 2, 1), ('F7S', 2, 1), ('PO', 2, 2)]
    if tier == 'thorough':
        plan += [('FT', 3, 1), ('FO8', 2, 1), ('F2L3D', 2, 1), ('FB', 2, 1), ('FR', 3, 1), ('F7S8', 2, 1), ('NS', 2, 1)]
    for code, n, boards in plan:
        for script, mode in SCRIPTS.get(code, [('ccc', 'C'), ('Rc', 'C')]):
            stacks = [100] * n
            if 'R' in script:
                stacks[-1] = 30
            out.append(dict(name=f'{code}/n{n}/{script}/{mode}', fn='h_probe',
                            params=dict(code=code, n=n, script=script, mode=mode, stacks=stacks,
                                        boards=boards),
                            budget_s=B, must_cover=['refused'], warnings='error'))
    # other deck orders: different seats win, so the hand-killing / pulling phases wait for other seats than seat 0
    for deck in ('reversed', 'stride7', 'stride5'):
        out.append(dict(name=f'NT/n3/Rcc/C/deck-{deck}/end-of-hand-ops', fn='h_probe',
                        params=dict(code='NT', n=3, script='Rcc', mode='C', stacks=[100, 100, 30], deck=deck,
                                    ops=['show_or_muck_hole_cards', 'kill_hand', 'push_chips', 'pull_chips',
                                         'select_runout_count']),
                        budget_s=B, must_cover=['refused', 'performed:kill_hand'], warnings='error'))
    out.append(dict(name='regression/F12', kind='native', fn='known_f12', params={}, budget_s=30))
    out.append(dict(name='NT/n3/ccc/C/warnings-ignored', fn='h_probe',
                    params=dict(code='NT', n=3, script='ccc', mode='C', warn='ignore'),
                    budget_s=B, must_cover=['refused'], warnings='ignore'))
    return out


def known_f12() -> dict:
    """re-run the listed inputs of known finding F12 natively."""
    import warnings as w
    from pokerkit import Automation, FixedLimitSevenCardStud, NoLimitTexasHoldem, Mode
    w.simplefilter('ignore')
    hits = []
    # (a) stud: unknown up card completing fourth street -> opener lookup KeyError
    st = FixedLimitSevenCardStud.create_state((Automation.ANTE_POSTING, Automation.BET_COLLECTION,
                                               Automation.CARD_BURNING), True, 1, 1, 2, 4, (100, 100), 2)
    for i in range(2):
        st.deal_hole('AsKs' if i == 0 else 'AdKd')
        st.deal_hole('2c' if i == 0 else '3c')
    st.post_bring_in()
    st.check_or_call()
    st.deal_hole('4c')
    try:
        ok = st.can_deal_hole('??')
        st.deal_hole('??')
    except KeyError:
        if ok:
            hits.append("F7S n=2: can_deal_hole('??') is True for the up card that completes fourth street, deal_hole('??') raises KeyError(Rank.UNKNOWN) after changing the state")
    except Exception:
        pass
    # (b) hold'em: unknown river card with all-in hands shown -> evaluation KeyError
    st = NoLimitTexasHoldem.create_state((Automation.ANTE_POSTING, Automation.BET_COLLECTION,
                                          Automation.BLIND_OR_STRADDLE_POSTING, Automation.CARD_BURNING,
                                          Automation.HOLE_CARDS_SHOWING_OR_MUCKING, Automation.HAND_KILLING,
                                          Automation.RUNOUT_COUNT_SELECTION),
                                         True, 0, (1, 2), 2, (20, 20), 2, mode=Mode.CASH_GAME)
    st.deal_hole('AsKs')
    st.deal_hole('AdKd')
    st.complete_bet_or_raise_to(20)
    st.check_or_call()
    st.deal_board('2c3c4c')
    st.deal_board('5d')
    try:
        ok = st.can_deal_board('??')
        st.deal_board('??')
    except KeyError:
        if ok:
            hits.append("NT heads-up all-in with shown hands: can_deal_board('??') is True for the river, deal_board('??') raises KeyError(Rank.UNKNOWN) after changing the state")
    except Exception:
        pass
    if hits:
        # F12 was repaired (fix: commits faf271e, 4c1868a): if it returns it is a violation again
        return dict(status='violation', kind='F12-returned', detail=' || '.join(hits),
                    replay={'values': {'inputs': hits}, 'outcome': 'viol'})
    return dict(status='confirmed', reason='the repaired F12 inputs behave', native_replays=2)
