"""C09 - automation only changes who performs a step (see harness/c07.py)."""
from __future__ import annotations

from harness.c07 import _jobs, h_equiv  # noqa: F401

META = {
    'explanation': (
        'Two runs per path on the same deck order and the same scripted decisions: R_auto with a SYMBOLIC automation '
        'subset (11 solver booleans, decided lazily) plus a driver for whatever is not automated, and R_twin with '
        'automations=() whose driver performs every automated step with default arguments as soon as it is available. '
        'Identical operation logs (types, players, amounts, cards) and identical final dataclass state are asserted. '
        'A second family makes a stack symbolic (traced) with 4 symbolic bits.'),
    'functions': ['automation branches of every _update_* phase step', 'default-argument choices of every mechanical operation'],
    'assumptions': ['scripted player decisions; concrete chips in the 2^11 family; concrete deck order (shuffle stub)'],
    'bounds': {'quick': 'see C07: 7 variant/stack layouts x 2-5 scripts x modes, all 2^11 subsets',
               'thorough': 'all 12 variants'},
    'outside': 'decision sequences other than the scripts',
}


def jobs(tier: str, seed: int) -> list[dict]:
    out = _jobs('h_equiv', tier, ['compared'])
    for j in out:
        j['module'] = 'harness.c09'
    return out
