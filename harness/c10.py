"""C10 - dealing follows the street definitions (driver and oracle in harness/c06.py)."""
from __future__ import annotations

from harness.c06 import META as _M, _jobs

META = dict(_M, explanation=(
    'Oracle computed from the Street tuples of the state (not from the engine\'s pending-status lists): per street every '
    'live player receives exactly the prescribed hole cards with the prescribed facing, each board the prescribed number '
    'of cards, a burn first iff prescribed, default dealee order by position one card per round, folded players nothing, '
    'no betting query enabled while dealing is incomplete; draws: discards are held cards, as many cards come back with '
    'the same facing; if the cards not in play cannot cover a hole street the same number goes to every board instead. '
    'Symbolic (solver-decided) choices: fold/bet bits, discard masks, deal_hole(k)/deal_board(k) counts. '
    'Street.__post_init__ validation on symbolic ints/bools/lengths.'))


def jobs(tier: str, seed: int) -> list[dict]:
    out = _jobs(tier, 'deal')
    out.append(dict(name='street-validation', module='harness.c06', fn='h_street_validation', params={},
                    budget_s=120, must_cover=['done']))
    return out
