"""C11 - each predefined variant plays the game its name and documentation say."""
from __future__ import annotations

from typing import Any

from harness import common as C

META = {
    'explanation': (
        'Part 1 (concrete, supporting): deck, hand types, hole cards and facing, board cards per street, draws, opening rule, '
        'structure, small/big-bet streets and cap of every created state vs a table transcribed from the documentation and '
        'class docstrings, for the 12 classes and the 11 PHH variant codes. Part 2 (deciding, symbolic): the C03 harness with '
        'the rule model parameterised by the DOCUMENTED structure (not by the state): fixed-limit => accepted amount is exactly '
        'the fixed size and the fifth bet/raise of a round is refused (incl. short all-in raises in between); no-limit => up to '
        'the stack; pot-limit => up to the pot; symbolic stacks, raise sizes and probe amount x.'),
    'functions': ['games.* constructors and create_state', 'HandHistory.game_types', 'State betting verification (as C03)'],
    'assumptions': ['documentation table transcribed by hand (harness/c11.py DOC)'],
    'bounds': {'quick': 'all 12 variants: n=2 depth 2 (symbolic stacks), fixed-limit cap shapes n=2 and n=4 with a short all-in raise; split games: two hand types',
               'thorough': 'depth 3, n=3'},
    'outside': 'histories beyond the depth',
}

STD, SHORT, REG, ROYAL = 'STANDARD', 'SHORT_DECK_HOLDEM', 'REGULAR', 'ROYAL_POKER'
# documented facts per variant: structure, cap, deck, hand types, streets = list of
# (burn, hole facing tuple, board cards, draw, opening, 'small'|'big')
HOLDEM = lambda h: [(False, (False,) * h, 0, False, 'Position', 'small'), (True, (), 3, False, 'Position', 'small'),  # noqa: E731
                    (True, (), 1, False, 'Position', 'big'), (True, (), 1, False, 'Position', 'big')]
STUD = lambda first, later: [(False, (False, False, True), 0, False, first, 'small'), (True, (True,), 0, False, later, 'small'),  # noqa: E731
                             (True, (True,), 0, False, later, 'big'), (True, (True,), 0, False, later, 'big'),
                             (True, (False,), 0, False, later, 'big')]
TRIPLE = lambda h: [(False, (False,) * h, 0, False, 'Position', 'small'), (True, (), 0, True, 'Position', 'small'),  # noqa: E731
                    (True, (), 0, True, 'Position', 'big'), (True, (), 0, True, 'Position', 'big')]
SINGLE = lambda h: [(False, (False,) * h, 0, False, 'Position', 'small'), (True, (), 0, True, 'Position', 'small')]  # noqa: E731
DOC = {
    'FT': dict(cls='FixedLimitTexasHoldem', structure='Fixed-limit', cap=4, deck=STD, hands=['StandardHighHand'], streets=HOLDEM(2)),
    'NT': dict(cls='NoLimitTexasHoldem', structure='No-limit', cap=None, deck=STD, hands=['StandardHighHand'], streets=HOLDEM(2)),
    'NS': dict(cls='NoLimitShortDeckHoldem', structure='No-limit', cap=None, deck=SHORT, hands=['ShortDeckHoldemHand'], streets=HOLDEM(2)),
    'NR': dict(cls='NoLimitRoyalHoldem', structure='No-limit', cap=None, deck=ROYAL, hands=['StandardHighHand'], streets=HOLDEM(2)),
    'PO': dict(cls='PotLimitOmahaHoldem', structure='Pot-limit', cap=None, deck=STD, hands=['OmahaHoldemHand'], streets=HOLDEM(4)),
    'FO8': dict(cls='FixedLimitOmahaHoldemHighLowSplitEightOrBetter', structure='Fixed-limit', cap=4, deck=STD,
                hands=['OmahaHoldemHand', 'OmahaEightOrBetterLowHand'], streets=HOLDEM(4), phh='FO/8'),
    'F7S': dict(cls='FixedLimitSevenCardStud', structure='Fixed-limit', cap=4, deck=STD, hands=['StandardHighHand'],
                streets=STUD('Low card', 'High hand')),
    'F7S8': dict(cls='FixedLimitSevenCardStudHighLowSplitEightOrBetter', structure='Fixed-limit', cap=4, deck=STD,
                 hands=['StandardHighHand', 'EightOrBetterLowHand'], streets=STUD('Low card', 'High hand'), phh='F7S/8'),
    'FR': dict(cls='FixedLimitRazz', structure='Fixed-limit', cap=4, deck=REG, hands=['RegularLowHand'],
               streets=STUD('High card', 'Low hand')),
    'N2L1D': dict(cls='NoLimitDeuceToSevenLowballSingleDraw', structure='No-limit', cap=None, deck=STD,
                  hands=['StandardLowHand'], streets=SINGLE(5)),
    'F2L3D': dict(cls='FixedLimitDeuceToSevenLowballTripleDraw', structure='Fixed-limit', cap=4, deck=STD,
                  hands=['StandardLowHand'], streets=TRIPLE(5)),
    'FB': dict(cls='FixedLimitBadugi', structure='Fixed-limit', cap=4, deck=REG, hands=['BadugiHand'], streets=TRIPLE(4)),
}
SMALL, BIG = 2, 4


def doc_for(code: str) -> dict:
    d = DOC[code]
    fl = d['structure'] == 'Fixed-limit'
    bets = [(SMALL if s[5] == 'small' or not C.uses_small_big(code) else BIG) for s in d['streets']]
    return dict(structure=d['structure'], cap=d['cap'], bets=bets)


def table_check() -> dict:
    """Part 1: created states vs the documentation table."""
    import warnings
    from pokerkit.notation import HandHistory
    from pokerkit.utilities import Deck
    warnings.simplefilter('ignore')
    bad = []
    n = 0
    for code, d in DOC.items():
        cls = C.VARIANTS.get(d['cls'])
        if cls is None:
            bad.append(f'{code}: class {d["cls"]} missing')
            continue
        cfg: dict = dict(n=3, stacks=(200, 200, 200), antes=1)
        if C.is_stud(code):
            cfg.update(bring_in=1, small_bet=SMALL, big_bet=BIG)
        else:
            cfg['blinds'] = (1, 2)
            if C.uses_small_big(code):
                cfg.update(small_bet=SMALL, big_bet=BIG)
            else:
                cfg['min_bet'] = SMALL
        st = C.make_state(code, cfg)
        n += 1
        if str(st.betting_structure.value) != d['structure']:
            bad.append(f'{code}: structure {st.betting_structure.value} documented {d["structure"]}')
        if st.deck is not getattr(Deck, d['deck']):
            bad.append(f'{code}: deck {st.deck.name} documented {d["deck"]}')
        if [h.__name__ for h in st.hand_types] != d['hands']:
            bad.append(f'{code}: hand types {[h.__name__ for h in st.hand_types]} documented {d["hands"]}')
        if len(st.streets) != len(d['streets']):
            bad.append(f'{code}: {len(st.streets)} streets documented {len(d["streets"])}')
            continue
        for k, (s, e) in enumerate(zip(st.streets, d['streets'])):
            got = (s.card_burning_status, tuple(s.hole_dealing_statuses), s.board_dealing_count, s.draw_status,
                   str(s.opening.value))
            if got != e[:5]:
                bad.append(f'{code} street {k}: {got} documented {e[:5]}')
            exp_bet = SMALL if (e[5] == 'small' or not C.uses_small_big(code)) else BIG
            if s.min_completion_betting_or_raising_amount != exp_bet:
                bad.append(f'{code} street {k}: bet {s.min_completion_betting_or_raising_amount} documented {exp_bet}')
            if s.max_completion_betting_or_raising_count != d['cap']:
                bad.append(f'{code} street {k}: cap {s.max_completion_betting_or_raising_count} documented {d["cap"]}')
        # create_state hands every documented parameter through
        marker_divmod = lambda a, b: divmod(a, b)  # noqa: E731
        marker_rake = lambda amount, state=None: (0, amount)  # noqa: E731
        from pokerkit.state import Automation, Mode
        st2 = C.make_state(code, dict(cfg, mode=Mode.CASH_GAME, starting_board_count=2, divmod=marker_divmod,
                                      rake=marker_rake, automations=(Automation.ANTE_POSTING,),
                                      ante_trimming_status=False))
        n += 1
        if st2.mode != Mode.CASH_GAME:
            bad.append(f'{code}: create_state drops mode')
        if st2.starting_board_count != 2 or st2.board_count != 2:
            bad.append(f'{code}: create_state drops starting_board_count ({st2.starting_board_count})')
        if st2.divmod is not marker_divmod or st2.rake is not marker_rake:
            bad.append(f'{code}: create_state drops divmod/rake')
        if tuple(st2.automations) != (Automation.ANTE_POSTING,) or st2.ante_trimming_status is not False:
            bad.append(f'{code}: create_state drops automations/ante_trimming_status')
        if tuple(st2.starting_stacks) != (200, 200, 200) or tuple(st2.antes) != (1, 1, 1):
            bad.append(f'{code}: create_state changes stacks/antes')
        if C.is_stud(code):
            if st2.bring_in != 1 or any(st2.blinds_or_straddles):
                bad.append(f'{code}: bring-in/blinds {st2.bring_in} {st2.blinds_or_straddles}')
        elif tuple(st2.blinds_or_straddles) != (1, 2, 0) or st2.bring_in != 0:
            bad.append(f'{code}: blinds/bring-in {st2.blinds_or_straddles} {st2.bring_in}')
        phh = d.get('phh', code)
        if code != 'NR':
            if HandHistory.game_types.get(phh) is not cls:
                bad.append(f'PHH code {phh} -> {HandHistory.game_types.get(phh)} documented {d["cls"]}')
            n += 1
    extra = set(HandHistory.game_types) - {d.get('phh', c) for c, d in DOC.items()}
    if extra:
        bad.append(f'undocumented PHH codes {extra}')
    if bad:
        return dict(status='violation', kind='variant-table', detail='; '.join(bad),
                    replay={'values': {'mismatches': bad}, 'outcome': 'viol'})
    return dict(status='confirmed', reason=f'{n} facts groups agree', native_replays=n)


def h_variant(ctx: Any, code: str, n: int, depth: int, script: str = '', fixed: Any = None,
              maxstack: int = 100000, part: Any = None) -> None:
    from harness.c03 import h_betting
    h_betting(ctx, code, n, depth, script=script, fixed=fixed, maxstack=maxstack, part=part, doc=doc_for(code))


def jobs(tier: str, seed: int) -> list[dict]:
    out = [dict(name='table', kind='native', fn='table_check', params={}, budget_s=60)]
    B = 400 if tier == 'quick' else 1500
    for code, d in DOC.items():
        for depth in ((1, 2) if tier == 'quick' else (1, 2, 3)):
            out.append(dict(name=f'{code}/n2/d{depth}', fn='h_variant', params=dict(code=code, n=2, depth=depth),
                            budget_s=B, must_cover=['done', 'probed'], prio=depth))
        if d['structure'] == 'Fixed-limit':
            lead = 'b' if C.is_stud(code) else 'c'
            out.append(dict(name=f'{code}/n2/cap', fn='h_variant',
                            params=dict(code=code, n=2, depth=6, script=lead + 'rrrr', fixed={'0': 1000, '1': 1000}),
                            budget_s=B, must_cover=['done', 'raise-refused']))
    # cap with a short all-in raise in between (4 players, one symbolic short stack)
    out.append(dict(name='FT/n4/cap/short-all-in', fn='h_variant',
                    params=dict(code='FT', n=4, depth=6, script='mmmmm', fixed={'0': 1000, '1': 1000, '2': 1000},
                                maxstack=12),
                    budget_s=B, must_cover=['done', 'raise-refused'], prio=9))
    for code in ('F7S', 'F7S8', 'FR'):
        out.append(dict(name=f'{code}/opening/door-cards', module='harness.c13', fn='h_door', traced=False,
                        params=dict(code=code, n=2), budget_s=B, must_cover=['door']))
    # split games award two halves (and only over hand types a contender holds): C02 oracle on hi+lo
    out.append(dict(name='split/hilo/n3/allin', module='harness.c02', fn='h_showdown',
                    params=dict(n=3, depth=0, shape='allin', hilo=True, levels=2, lo_levels=1,
                                part=['s0<s1', 's1==s2']),
                    budget_s=B, must_cover=['showdown'], prio=9))
    out.append(dict(name='F7S/n8/streets-played', module='harness.c06', fn='h_deal', traced=False,
                    params=dict(code='F7S', n=8, sym_decisions=2, manual='auto', draw_masks=False, which='deal'),
                    budget_s=B, must_cover=['done', 'fallback']))
    # pot-limit "up to the pot" counts the chips a player abandoned by folding in the same round (3 players)
    for script in ('rf', 'rrf', 'cr'):
        out.append(dict(name=f'PO/n3/{script}/pot-after-a-fold', fn='h_variant',
                        params=dict(code='PO', n=3, depth=len(script) + 1, script=script,
                                    fixed={'0': 1000, '1': 1000, '2': 1000}),
                        budget_s=B, must_cover=['done', 'probed'], prio=8))
    # cards per street of every variant, dealt in any number of dealing operations (C10 dealing oracle from the
    # Street tuples, DOC table fixes the tuples): hole/board counts per street, board slots, draws
    for code, n in (('NT', 2), ('PO', 2), ('FO8', 2), ('NS', 2), ('FT', 3), ('F7S', 2), ('FR', 2), ('F7S8', 2),
                    ('N2L1D', 2), ('F2L3D', 2), ('FB', 2)):
        out.append(dict(name=f'{code}/n{n}/cards-per-street/any-dealing-counts', module='harness.c06', fn='h_deal', traced=False,
                        params=dict(code=code, n=n, sym_decisions=0, manual='counts', which='deal', count_budget=6,
                                    mask_budget=1, boards=2 if code == 'PO' else 1),
                        budget_s=B, must_cover=['done']))
    return out
