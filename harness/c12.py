"""C12 - automatic mucking and hand killing never cost a player chips."""
from __future__ import annotations

from typing import Any

from harness import common as C
from harness.c02 import mini_streets
from harness.drive import MAXCHIP, at_decision, decide, finish
from harness.oracle import NoRule, award, contenders, side_pots
from harness.symhand import make_symhand
from pokerkit.state import Mode

META = {
    'explanation': (
        'Parametric evaluator (strength per card set = z3 integer, monotone in the card set, optional "no low"), symbolic '
        'stacks. The engine decides who shows/mucks and whose hand is killed (both automations on); the final payoffs are '
        'compared with the side-pot oracle applied to ALL players who did not fold, each tabling his full hand. Log '
        'assertions: a player mucked or killed by the engine wins nothing in the oracle; in tournament mode every show at '
        'an all-in or final showdown shows all hole cards; the first to show is the last aggressor of the final round '
        '(else the first to act).'),
    'functions': ['State.can_win_now', 'State.verify_hole_cards_showing_or_mucking', 'State.show_or_muck_hole_cards',
                  'State._begin_showdown', 'State._begin_hand_killing', 'State.kill_hand', 'State.get_hand',
                  'State.get_up_hands', 'State.pots', 'State.push_chips'],
    'assumptions': ['evaluator abstracted to any monotone strength function', 'contributions read from the engine (C01)',
                    'mini hold\'em streets, blinds 1/2, all automations on'],
    'bounds': {'quick': 'n=3 single type check-down and depth 1; n=2 hi+lo; n=3 all-in; tournament and cash',
               'thorough': 'n=3 hi+lo, two boards, depth 2'},
    'outside': 'n > 3; > 2 boards; partial shows (manual showdown is C08/C15)',
}


def _fold_name(asked: dict, i: int) -> str:
    # a seat can be asked again (a short opening shove re-opened by a bigger call is not a raise, but a
    # second betting round can follow when nobody is all-in yet): keep the symbol names unique
    asked[i] = asked.get(i, 0) + 1
    return f'fold{i}' if asked[i] == 1 else f'fold{i}x{asked[i]}'


def h_muck(ctx: Any, n: int, depth: int, hilo: bool = False, boards: int = 1, mode: str = 'T',
           shape: str = 'free', deck: str = 'identity', levels: int = 0, lo_levels: int = 0,
           part: Any = None) -> None:
    C.set_deck_order(deck)
    levels = levels or n
    types: tuple = (make_symhand(ctx, 'H', False, levels),)
    if hilo:
        types += (make_symhand(ctx, 'L', True, lo_levels or levels, allow_none=True),)
    stacks = tuple(ctx.int(f's{i}', 1, MAXCHIP) for i in range(n))
    ctx.constrain(part)
    cfg = dict(n=n, stacks=stacks, blinds=(1, 2), min_bet=2, antes=0,
               mode=Mode.TOURNAMENT if mode == 'T' else Mode.CASH_GAME,
               streets=mini_streets(2), hand_types=types, starting_board_count=boards)
    holes: dict = {i: [] for i in range(n)}
    folded: list = []
    snap: dict = {}
    shows: list = []
    killed: list = []
    rounds: list = [{'first': None, 'raiser': None}]

    def mon(state: Any, op: Any) -> None:
        ctx.ops += 1
        name = type(op).__name__
        if name == 'HoleDealing':
            holes[op.player_index].extend(op.cards)
        elif name == 'BoardDealing':
            rounds.append({'first': None, 'raiser': None})
        elif name in ('Folding', 'CheckingOrCalling', 'CompletionBettingOrRaisingTo'):
            if rounds[-1]['first'] is None:
                rounds[-1]['first'] = op.player_index
            if name == 'Folding':
                folded.append(op.player_index)
            if name == 'CompletionBettingOrRaisingTo':
                rounds[-1]['raiser'] = op.player_index
        elif name == 'HoleCardsShowingOrMucking':
            shows.append((op.player_index, tuple(op.hole_cards), state.all_in_status,
                          state.street is state.streets[-1]))
        elif name == 'HandKilling':
            killed.append(op.player_index)
        elif name == 'ChipsPushing' and not snap:
            snap['contrib'] = [state.starting_stacks[i] - state.stacks[i] - (state.bets[i] - op.amounts[i])
                               for i in state.player_indices]
            snap['boards'] = [tuple(state.get_board_cards(b)) for b in state.board_indices]
            snap['live_at_push'] = list(state.statuses)

    C.set_monitor(mon)
    try:
        st = C.call(ctx, C.make_state, 'NT', cfg)
        if shape == 'allin':
            first = True
            asked: dict = {}
            while at_decision(st):
                if first:
                    first = False
                    if st.can_complete_bet_or_raise_to(st.max_completion_betting_or_raising_to_amount):
                        C.call(ctx, st.complete_bet_or_raise_to, st.max_completion_betting_or_raising_to_amount)
                    else:
                        C.call(ctx, st.check_or_call)
                elif st.can_fold() and ctx.flag(_fold_name(asked, st.actor_index)):
                    C.call(ctx, st.fold)
                else:
                    C.call(ctx, st.check_or_call)
        else:
            for step in range(depth):
                if not at_decision(st):
                    break
                decide(ctx, st, f'd{step}')
            finish(ctx, st)
        ctx.check(not st.status, 'not-terminal')
        in_hand = [i not in folded for i in range(n)]
        if sum(1 for x in in_hand if x) < 2:
            ctx.cover('no-showdown')
            return
        ctx.cover('showdown')
        contrib = snap['contrib']
        pots = side_pots(list(contrib), in_hand, 0)
        for amount, elig in pots:
            if not elig:
                ctx.assume(False)

        def strength(i: int, b: int, t: int) -> Any:
            return types[t].lookup.strength(tuple(holes[i]) + snap['boards'][b])

        # pass 1 (pure rules): who can win anything at all when everybody tables his hand
        cont = contenders(pots, n, len(snap['boards']), len(types), strength)
        # pass 2: hands that cannot win are dead (mucked/killed) in EVERY run, also the one where
        # everybody shows; pots contested by the same players are one pot (documented merge rule)
        pots2 = side_pots(list(contrib), [in_hand[i] and cont[i] for i in range(n)], 0)
        try:
            win, _ = award(pots2, n, len(snap['boards']), len(types), strength)
        except NoRule:
            ctx.assume(False)
        conds = [st.payoffs[i] == win[i] - contrib[i] for i in range(n)]
        if not C.all_true(conds):
            ctx.fail('payoffs-differ-from-everybody-shows', lambda: f'payoffs {st.payoffs} oracle win {win} contrib {contrib} shows {shows} killed {killed}')
        mucked = [p for p, cards, _, _ in shows if not cards]
        for p in mucked + killed:
            ctx.check(not cont[p], 'winner-mucked-or-killed', lambda: f'player {p}')
            ctx.cover('mucked-or-killed')
        for p in range(n):
            if in_hand[p] and cont[p]:
                ctx.check(p not in mucked and p not in killed and st.statuses[p],
                          'hand-that-can-win-not-live', lambda: f'player {p}')
        # tournament: all-in / final showdown shows every hole card
        if mode == 'T':
            for p, cards, allin, final in shows:
                if cards and (allin or final):
                    ctx.check(len(cards) == len(holes[p]) and all(bool(c) for c in cards),
                              'partial-show-in-tournament', lambda: f'{p} {cards}')
        # order: last aggressor of the final betting round first, else first to act
        if shows and not shows[0][2]:
            last = rounds[-1]
            exp = last['raiser'] if last['raiser'] is not None else last['first']
            if exp is not None and exp not in folded:
                ctx.check(shows[0][0] == exp, 'showdown-order', lambda: f'first to show {shows[0][0]} expected {exp}')
                ctx.cover('order-checked')
    finally:
        C.set_monitor(None)


def h_order(ctx: Any, code: str, n: int, script: str, stacks: Any, deck: str = 'identity', mode: str = 'C') -> None:
    """showdown performed by hand in ANY order (symbolic), the engine deciding show/muck for the named player:
    same payoffs as the run where everybody tables his hand in the default order."""
    import warnings
    from harness.manual import at_player_decision, decide
    from pokerkit.state import Automation
    C.native_hands()
    C.set_deck_order(deck)
    warnings.simplefilter('ignore')
    autos = tuple(a for a in Automation if a != Automation.HOLE_CARDS_SHOWING_OR_MUCKING)
    cfg: dict = dict(n=n, stacks=tuple(stacks), antes=1, automations=autos,
                     mode=Mode.CASH_GAME if mode == 'C' else Mode.TOURNAMENT)
    if C.is_stud(code):
        cfg.update(bring_in=1, small_bet=2, big_bet=4)
    else:
        cfg['blinds'] = (1, 2)
        if C.uses_small_big(code):
            cfg.update(small_bet=2, big_bet=4)
        else:
            cfg['min_bet'] = 2

    def run(all_show: bool) -> Any:
        st = C.make_state(code, cfg)
        k = 0
        guard = 0
        while st.status:
            guard += 1
            ctx.check(guard < 300, 'no-termination')
            if at_player_decision(st):
                ch = script[k] if k < len(script) else 'c'
                k += 1
                decide(st, ch)
            elif st.showdown_index is not None:
                if mode == 'T' and (st.all_in_status or st.street is st.streets[-1]):
                    # tournament: an all-in or final showdown requires ALL hole cards to be shown
                    i = st.showdown_index
                    for part in (tuple(st.hole_cards[i][:1]), ()):
                        ctx.check(not st.can_show_or_muck_hole_cards(part, i), 'partial-show-accepted-in-tournament',
                                  lambda: f'player {i} {part}')
                    ctx.cover('tournament-show')
                if all_show:
                    st.show_or_muck_hole_cards(True)
                else:
                    pending = list(st.showdown_indices)
                    who = pending[ctx.choice(f'who{guard}', len(pending))]
                    op = C.call(ctx, st.show_or_muck_hole_cards, None, who)
                    ctx.check(op.player_index == who, 'wrong-player')
            else:
                ctx.fail('stuck')
        return st
    ref = run(True)
    got = run(False)
    ctx.check(list(got.payoffs) == list(ref.payoffs), 'payoffs-differ-from-everybody-shows',
              lambda: f'{got.payoffs} vs {ref.payoffs}')
    ctx.cover('done')


def h_partial_show(ctx: Any) -> None:
    """cash game, final-street showdown, real evaluator: a player tables only the card(s) he needs; the engine's
    hand killing must not cost him the pot, and kill_hand(i) is accepted exactly for the hands it marked."""
    import warnings
    from pokerkit.state import Automation
    C.set_deck_order('identity')
    warnings.simplefilter('ignore')
    autos = tuple(a for a in Automation if a not in (Automation.HOLE_DEALING, Automation.BOARD_DEALING,
                                                     Automation.CARD_BURNING, Automation.HOLE_CARDS_SHOWING_OR_MUCKING,
                                                     Automation.HAND_KILLING))
    st = C.make_state('NT', dict(n=2, stacks=(50, 50), blinds=(1, 2), min_bet=2, automations=autos, mode=Mode.CASH_GAME))
    holes = [('Ac', '7d'), ('Kc', 'Kh'), ('2h', '3h')]
    h0 = holes[ctx.choice('h0', 2)]
    h1 = holes[1 if h0 == holes[0] else 2]
    boards = ['2c5c9cJc8s', 'QcTc4c3cKd']
    board = boards[ctx.choice('board', 2)]
    st.deal_hole(''.join(h0), 0)
    st.deal_hole(''.join(h1), 1)
    k = 0
    while st.status and (st.actor_index is not None or st.can_burn_card() or st.can_deal_board()):
        if st.can_burn_card():
            st.burn_card('??')
        elif st.can_deal_board():
            need = st.board_dealing_count
            st.deal_board(board[2 * k:2 * (k + need)])
            k += need
        else:
            st.check_or_call()
    # reference: everybody tables everything
    import copy
    ref = copy.deepcopy(st)
    while ref.status:
        if ref.showdown_index is not None:
            ref.show_or_muck_hole_cards(True)
        elif ref.can_kill_hand():
            ref.kill_hand()
        else:
            ctx.fail('reference-stuck')
    # the run under test: the first to show tables only his first card when that is allowed
    first = True
    while st.status:
        if st.showdown_index is not None:
            i = st.showdown_index
            part = tuple(st.hole_cards[i][:1])
            if first and ctx.flag('partial') and st.can_show_or_muck_hole_cards(part):
                st.show_or_muck_hole_cards(part)
                ctx.cover('partial-show')
            else:
                st.show_or_muck_hole_cards(True)
            first = False
        elif st.can_kill_hand():
            marked = list(st.hand_killing_indices)
            for j in range(2):
                ctx.check(st.can_kill_hand(j) == (j in marked), 'kill-offered-for-a-hand-not-marked', lambda: f'player {j} marked {marked}')
            C.call(ctx, st.kill_hand)
        else:
            ctx.fail('stuck')
    # the shown part of the hand decides: with one card shown the player plays that card + board
    if 'partial-show' not in ctx.covered:
        ctx.check(list(st.payoffs) == list(ref.payoffs), 'payoffs-differ-from-everybody-shows', lambda: f'{st.payoffs} vs {ref.payoffs}')
    else:
        from pokerkit.hands import StandardHighHand
        shown = [tuple(c for c, s_ in zip(st.hole_cards[i], st.hole_card_statuses[i]) if s_ and c) for i in range(2)]
        hs = [StandardHighHand.from_game_or_none(sh, board) for sh in shown]
        best = max(h for h in hs if h is not None)
        winners = [i for i in range(2) if hs[i] is not None and hs[i] == best]
        for i in range(2):
            if i in winners:
                ctx.check(st.payoffs[i] > 0 or len(winners) == 2, 'winner-with-a-partly-shown-hand-lost-the-pot',
                          lambda: f'shown {shown} board {board} payoffs {st.payoffs}')
    ctx.check(sum(st.payoffs) == 0, 'chips-vanished', lambda: f'{st.payoffs}')
    ctx.cover('done')


def jobs(tier: str, seed: int) -> list[dict]:
    from engine.partition import weak_orders, tri
    deck = 'identity' if not seed else f'rot{seed % 52}'
    out = []
    B = 400 if tier == 'quick' else 1500
    mc = ['showdown']
    w3 = weak_orders(['s0', 's1', 's2'])
    for k, part in enumerate(w3):
        out.append(dict(name=f'checkdown/n3/hi/T/w{k}', fn='h_muck',
                        params=dict(n=3, depth=0, deck=deck, part=part), budget_s=B, must_cover=mc))
        out.append(dict(name=f'allin/n3/hilo/T/w{k}', fn='h_muck',
                        params=dict(n=3, depth=0, shape='allin', hilo=True, levels=2, lo_levels=1,
                                    deck=deck, part=part), budget_s=B, must_cover=mc))
    for k in range(3):
        out.append(dict(name=f'free/n2/hilo/d1/T/k{k}', fn='h_muck',
                        params=dict(n=2, depth=1, hilo=True, deck=deck, _preset={'d0_k': k}),
                        budget_s=B, must_cover=mc if k else []))
        for pi, part in enumerate([[c] for c in tri('s0', 's1')] if k == 2 else [None]):
            out.append(dict(name=f'free/n3/hi/d1/C/k{k}' + ('' if part is None else f'/p{pi}'), fn='h_muck',
                            params=dict(n=3, depth=1, mode='C', deck=deck, levels=2, _preset={'d0_k': k},
                                        part=part),
                            budget_s=B, must_cover=[]))
    out.append(dict(name='checkdown/n2/hilo/2boards/T', fn='h_muck',
                    params=dict(n=2, depth=0, hilo=True, boards=2, levels=2, lo_levels=1, deck=deck),
                    budget_s=B, must_cover=mc))
    for code, n, script, stacks in (('NT', 3, 'ccc', (50, 50, 50)), ('NT', 3, 'Rcc', (50, 30, 9)), ('NT', 3, 'Rcc', (30, 30, 30)),
                                   ('NT', 2, 'cccRc', (30, 30)), ('FO8', 3, 'ccc', (50, 50, 50)),
                                   ('F7S', 3, 'bcc', (50, 50, 50)), ('N2L1D', 2, 'ccds', (50, 50))):
        for dk in ('identity', 'stride7', 'reversed'):
            out.append(dict(name=f'order/{code}/n{n}/{script}/s{stacks[0]}-{stacks[-1]}/{dk}', fn='h_order', traced=False,
                            params=dict(code=code, n=n, script=script, stacks=stacks, deck=dk), budget_s=B,
                            must_cover=['done']))
        out.append(dict(name=f'order/{code}/n{n}/{script}/s{stacks[0]}-{stacks[-1]}/tournament', fn='h_order', traced=False,
                        params=dict(code=code, n=n, script=script, stacks=stacks, mode='T'), budget_s=B,
                        must_cover=['done', 'tournament-show']))
    out.append(dict(name='partial-show/real-cards', fn='h_partial_show', traced=False, params={}, budget_s=B,
                    must_cover=['done', 'partial-show']))
    if tier == 'thorough':
        for k, part in enumerate(w3):
            out.append(dict(name=f'checkdown/n3/hilo/T/w{k}', fn='h_muck',
                            params=dict(n=3, depth=0, hilo=True, levels=2, deck=deck, part=part),
                            budget_s=B, must_cover=mc))
            out.append(dict(name=f'allin/n3/hilo/2boards/C/w{k}', fn='h_muck',
                            params=dict(n=3, depth=0, shape='allin', hilo=True, boards=2, levels=2,
                                        lo_levels=1, mode='C', deck=deck, part=part),
                            budget_s=B, must_cover=mc))
    return out
