"""C13 - the right player opens each betting round."""
from __future__ import annotations

import warnings
from typing import Any

from harness import common as C
from harness.drive import MAXCHIP
from pokerkit.state import Automation, Mode, State

META = {
    'explanation': (
        'Button games: the constructor runs on SYMBOLIC signed blinds/straddles/posts and stacks; the first actor of '
        'round one and (after a check-down) of round two is compared with the documented rule. Stud third street: '
        'door cards with pinned symbolic rank and suit are dealt through the real deal_hole; opener and bring-in poster '
        'are compared with lowest (razz: highest) card, suits breaking ties. Later stud streets: the private opening '
        'lookups are replaced by a stub returning SYMBOLIC entry indices per player, the real _begin_betting selects the '
        'opener (tables themselves: C04 L1).'),
    'functions': ['State._begin_betting (POSITION, LOW_CARD, HIGH_CARD, LOW_HAND, HIGH_HAND)', 'State.get_effective_blind_or_straddle',
                  'State.post_blind_or_straddle', 'State.get_up_cards', 'State.post_bring_in', 'State.get_effective_stack'],
    'assumptions': ['standard layouts: positive blinds/straddles form a non-decreasing prefix; posts (negative) on later seats',
                    'name-mangled opening lookups found as State._State__low/high_hand_opening_lookup (else inconclusive)'],
    'bounds': {'quick': 'button: n in 2..4 with optional straddle and post; stud: n=2 all 52x51 door-card pairs, n=3 by rank with 2 suits; later streets n=3 symbolic entries',
               'thorough': 'n=3 door cards with all suits'},
    'outside': 'non-standard blind layouts (gaps, decreasing blinds); n > 4',
}


def first_able(st: Any, start: int) -> Any:
    n = st.player_count
    for k in range(n):
        i = (start + k) % n
        if st.statuses[i] and st.stacks[i] > 0 and st.get_effective_stack(i) > 0:
            return i
    return None


def h_button(ctx: Any, n: int, straddle: bool = False, post: bool = False, code: str = 'NT',
             part: Any = None, sym_blinds: bool = True, second_round: bool = True) -> None:
    C.native_hands()
    C.set_deck_order('identity')
    warnings.simplefilter('ignore')
    stacks = tuple(ctx.int(f's{i}', 1, MAXCHIP) for i in range(n))
    if sym_blinds:
        sb = ctx.int('sb', 1, MAXCHIP)
        bb = ctx.int('bb', 1, MAXCHIP)
        ctx.assume(sb <= bb)
    else:
        sb, bb = 1, 2
    blinds = [sb, bb] + [0] * (n - 2)
    last = 1
    if straddle and n >= 4:
        sd = ctx.int('straddle', 1, 2 * MAXCHIP) if sym_blinds else 4
        ctx.assume(sd >= bb)
        blinds[2] = sd
        last = 2
    if post and n >= 3:
        p = ctx.int('post', 1, 3 * MAXCHIP)
        blinds[n - 1] = -p
    ctx.constrain(part)
    cfg = dict(n=n, stacks=stacks, blinds=tuple(blinds), min_bet=bb, antes=0)
    st = C.call(ctx, C.make_state, code, cfg)
    designated = 1 if n == 2 else (last + 1) % n
    if st.status and st.street_index == 0 and st.actor_index is not None:
        exp = first_able(st, designated)
        ctx.check(st.actor_index == exp, 'first-round-opener', lambda: f'blinds {blinds} stacks {stacks} bets {st.bets}: actor {st.actor_index} expected {exp}')
        ctx.cover('round1')
        if not second_round:
            return
        # check-down to the next round
        guard = 0
        while st.status and st.street_index == 0 and st.actor_index is not None:
            guard += 1
            ctx.check(guard < 3 * n, 'no-termination')
            C.call(ctx, st.check_or_call)
        if st.status and st.actor_index is not None:
            exp2 = first_able(st, 0)
            ctx.check(st.actor_index == exp2, 'later-round-opener', lambda: f'actor {st.actor_index} expected {exp2} stacks {st.stacks}')
            ctx.cover('round2')
    else:
        ctx.cover('no-action')


SUITS_ORDER = 'cdhs'


def h_door(ctx: Any, code: str, n: int, suits: int = 4, short: bool = False, short_stack: int = 2) -> None:
    """stud third street: door cards = pinned symbolic rank/suit."""
    from pokerkit.utilities import Card, Rank, Suit
    C.native_hands()
    C.set_deck_order('identity')
    warnings.simplefilter('ignore')
    razz = code == 'FR'
    order = 'A23456789TJQK' if razz else '23456789TJQKA'
    autos = tuple(a for a in Automation if a not in (Automation.HOLE_DEALING,))
    stacks = [100] * n
    if short:
        stacks[ctx.choice('short_seat', n)] = short_stack      # 2: ante 1 + 1 chip (all-in with the bring-in); 1: all-in by the ante
    st = C.make_state(code, dict(n=n, stacks=tuple(stacks), antes=1, bring_in=2, small_bet=4, big_bet=8,
                                 automations=autos))
    doors = []
    for i in range(n):
        r = order[ctx.choice(f'r{i}', 13)]
        s = SUITS_ORDER[ctx.choice(f'u{i}', suits)]
        doors.append(Card(Rank(r), Suit(s)))
    for i in range(n):
        for j in range(i):
            ctx.assume(doors[i] != doors[j])
    down = [c for c in st.deck_cards if c not in doors]
    for i in range(n):
        C.call(ctx, st.deal_hole, (down[2 * i], down[2 * i + 1], doors[i]), i)

    def key(c: Any) -> tuple:
        return (order.index(str(c.rank.value)), SUITS_ORDER.index(str(c.suit.value)))
    if razz:
        exp = max(range(n), key=lambda i: key(doors[i]))
    else:
        exp = min(range(n), key=lambda i: key(doors[i]))
    if st.stacks[exp] == 0:
        # the designated opener is all-in (ante): the turn passes clockwise, the bring-in is still forced
        exp = first_able(st, exp)
        ctx.cover('all-in-opener')
    if exp is None:
        ctx.check(st.actor_index is None, 'actor-although-nobody-can-act')
        ctx.cover('door')
        return
    ctx.check(st.actor_index == exp, 'door-card-opener', lambda: f'{doors}: actor {st.actor_index} expected {exp}')
    ctx.check(st.can_post_bring_in(), 'bring-in-not-offered')
    ctx.check(not st.can_check_or_call() and not st.can_fold(), 'bring-in-not-forced')
    op = C.call(ctx, st.post_bring_in)
    ctx.check(op.player_index == exp, 'bring-in-poster')
    ctx.cover('door')


class StubLookup:
    def __init__(self, ctx: Any, n_levels: int) -> None:
        self.ctx, self.levels, self.cache = ctx, n_levels, {}

    def get_entry_or_none(self, cards: Any) -> Any:
        from pokerkit.lookups import Entry, Label
        from crosshair.tracers import NoTracing
        cards = tuple(cards)
        with NoTracing():
            key = ''.join(sorted(repr(c) for c in cards))
        if key not in self.cache:
            self.cache[key] = self.ctx.int('e_' + key, 0, self.levels - 1)
        return Entry(self.cache[key], Label.HIGH_CARD)


def h_later(ctx: Any, code: str, n: int, short_seat: int = -1) -> None:
    """fourth street: opener = best exposed hand (razz: lowest), earliest seat on ties,
    an all-in opener passes clockwise."""
    C.native_hands()
    C.set_deck_order('identity')
    warnings.simplefilter('ignore')
    razz = code == 'FR'
    attr = '_State__low_hand_opening_lookup' if razz else '_State__high_hand_opening_lookup'
    if not hasattr(State, attr):
        ctx.fail('harness-cannot-find-opening-lookup')
    stub = StubLookup(ctx, n)
    stacks = [100] * n
    if short_seat >= 0:
        stacks[short_seat] = 3          # ante 1 + bring-in/call 2: all-in on third street
    st = C.make_state(code, dict(n=n, stacks=tuple(stacks), antes=1, bring_in=2, small_bet=4, big_bet=8))
    # third street: bring-in, everybody calls
    C.call(ctx, st.post_bring_in)
    while st.status and st.street_index == 0 and st.actor_index is not None:
        C.call(ctx, st.check_or_call)
    ctx.check(st.status and st.street_index == 1, 'fourth-street-not-reached')
    # re-run the opener selection of fourth street with symbolic exposed-hand entries
    old = getattr(State, attr)
    setattr(State, attr, stub)
    try:
        st.street_index = 1
        st._begin_betting()
    finally:
        setattr(State, attr, old)
    ups = [''.join(sorted(repr(c) for c in st.get_up_cards(i))) for i in range(n)]
    ent = [stub.cache[u] for u in ups]
    best = 0
    for i in range(1, n):
        better = (ent[i] < ent[best]) if razz else (ent[i] > ent[best])
        if better:
            best = i
    ctx.check(st.opener_index == best, 'exposed-hand-opener', lambda: f'entries {ent} opener {st.opener_index} expected {best}')
    exp = first_able(st, best)
    ctx.check(st.actor_index == exp, 'exposed-hand-actor', lambda: f'actor {st.actor_index} expected {exp}')
    ctx.cover('later')


def jobs(tier: str, seed: int) -> list[dict]:
    from engine.partition import weak_orders, tri
    out = []
    B = 400 if tier == 'quick' else 1500
    out.append(dict(name='button/n2', fn='h_button', params=dict(n=2), budget_s=B, must_cover=['round1', 'round2']))
    out.append(dict(name='regression/F13', kind='native', fn='known_f13', params={}, budget_s=30))
    for k, part in enumerate([[c] for c in tri('s0', 's1')]):
        out.append(dict(name=f'button/n3/p{k}', fn='h_button', params=dict(n=3, part=part), budget_s=B,
                        must_cover=['round1'], prio=8))
        out.append(dict(name=f'button/n3/post/p{k}', fn='h_button',
                        params=dict(n=3, post=True, part=part, sym_blinds=False), budget_s=B,
                        must_cover=['round1'], prio=8))
    for k, part in enumerate([[c] for c in tri('s2', 's3')]):
        out.append(dict(name=f'button/n4/straddle+post/p{k}', fn='h_button',
                        params=dict(n=4, straddle=True, post=True, part=part, sym_blinds=False,
                                    second_round=False), budget_s=B, must_cover=['round1'], prio=9))
    if tier == 'thorough':
        for k, part in enumerate(weak_orders(['s1', 's2', 's3'])):
            out.append(dict(name=f'button/n4/straddle+post/sym-blinds/w{k}', fn='h_button',
                            params=dict(n=4, straddle=True, post=True, part=part), budget_s=B,
                            must_cover=['round1']))
    for code in ('F7S', 'FR', 'F7S8'):
        out.append(dict(name=f'door/{code}/n2', fn='h_door', traced=False, params=dict(code=code, n=2),
                        budget_s=B, must_cover=['door']))
        out.append(dict(name=f'door/{code}/n2/short', fn='h_door', traced=False,
                        params=dict(code=code, n=2, short=True), budget_s=B, must_cover=['door']))
        out.append(dict(name=f'door/{code}/n3/ante-all-in/2suits', fn='h_door', traced=False,
                        params=dict(code=code, n=3, suits=2, short=True, short_stack=1), budget_s=B,
                        must_cover=['door', 'all-in-opener']))
        out.append(dict(name=f'door/{code}/n3/2suits', fn='h_door', traced=False,
                        params=dict(code=code, n=3, suits=2), budget_s=B, must_cover=['door']))
        for short in (-1, 0, 1, 2):
            out.append(dict(name=f'later/{code}/n3/short{short}', fn='h_later',
                            params=dict(code=code, n=3, short_seat=short), budget_s=B, must_cover=['later']))
    if tier == 'thorough':
        for code in ('F7S', 'FR'):
            out.append(dict(name=f'door/{code}/n3/4suits', fn='h_door', traced=False,
                            params=dict(code=code, n=3, suits=4), budget_s=B, must_cover=['door']))
    return out


def known_f13() -> dict:
    import warnings as w
    from pokerkit import Automation, NoLimitTexasHoldem
    w.simplefilter('ignore')
    st = NoLimitTexasHoldem.create_state(tuple(Automation), True, 0, (1, 1), 1, (10, 10), 2)
    if st.actor_index == 0:
        # F13 was repaired by a fix: commit; if it returns it is a violation again
        return dict(status='violation', kind='F13-returned',
                    detail='heads-up NLHE with EQUAL blinds (1, 1), stacks (10, 10): player 0 (big blind) opens',
                    replay={'values': {'blinds': [1, 1], 'stacks': [10, 10]}, 'outcome': 'viol'})
    return dict(status='confirmed', reason='the repaired F13 input behaves', native_replays=1)
