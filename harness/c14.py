"""C14 - multiple run-outs and multiple boards are offered and dealt as documented."""
from __future__ import annotations

import warnings
from typing import Any

from harness import common as C
from harness.manual import at_player_decision, decide
from pokerkit.state import Automation, Mode

META = {
    'explanation': (
        'All-in situations on every street of hold\'em-type games with b starting boards: each remaining player\'s '
        'preference (None, 1, 2, 3), the order of the selections, and whether a player selects before or after showing '
        'are SYMBOLIC choices (solver-decided); assertions: selection offered iff cash game, everybody remaining all-in '
        'and board cards to come; to each remaining player exactly once; agreed count = common value of the expressed '
        'preferences else 1; b*r complete boards; run-outs of a starting board share exactly the cards dealt before the '
        'all-in, no other card twice; every pot divided evenly over the boards (odd chips to board 0); chips conserved.'),
    'functions': ['State._begin_showdown', 'State.select_runout_count', 'State._end_showdown', 'State._end_bet_collection',
                  'State.board_count', 'State.get_board_cards', 'State.deal_board', 'State._begin_chips_pushing', 'State.push_chips'],
    'assumptions': ['concrete chips and cards (deck order stub); betting scripted; the real code runs natively, the solver decides the choices'],
    'bounds': {'quick': 'NT n=2,3 and PO 2 starting boards n=2; all-in preflop / flop / turn / river and a not-all-in showdown; preferences in {None,1,2,3}; every selection order',
               'thorough': 'n=3 with 2 starting boards, preferences up to 4'},
    'outside': 'n > 3; stud/draw games (no board); more than 2 starting boards',
}

SCRIPTS = {   # betting scripts reaching an all-in on the given street (R = all-in raise)
    'preflop': 'Rcc', 'flop': 'cccRcc', 'turn': 'ccccccRcc', 'river': 'cccccccccRcc', 'none': 'cccccccccccc',
}


def h_runout(ctx: Any, code: str, n: int, street: str, boards: int = 1, mode: str = 'C',
             stacks: Any = None, maxpref: int = 3) -> None:
    C.native_hands()
    C.set_deck_order('identity')
    warnings.simplefilter('ignore')
    autos = tuple(a for a in Automation if a not in (Automation.RUNOUT_COUNT_SELECTION,
                                                     Automation.HOLE_CARDS_SHOWING_OR_MUCKING))
    stacks = tuple(stacks or (41,) * n)
    st = C.call(ctx, C.make_state, code, dict(n=n, stacks=stacks, blinds=(1, 2), min_bet=2, small_bet=2, big_bet=4, antes=0,
                                               automations=autos, starting_board_count=boards,
                                               mode=Mode.CASH_GAME if mode == 'C' else Mode.TOURNAMENT))
    script = SCRIPTS[street]
    if n == 2:
        script = script.replace('Rcc', 'Rc').replace('ccc', 'cc')
    k = 0
    selected: dict = {}
    pushes: list = []
    pot_totals: dict = {}

    def mon(state: Any, op: Any) -> None:
        if type(op).__name__ == 'ChipsPushing':
            if not pushes:
                for i, p in enumerate(state._pots):
                    pot_totals[i] = p.unraked_amount + (sum(op.amounts) if i == op.pot_index else 0)
            pushes.append((op.pot_index, op.board_index, sum(op.amounts)))
    C.set_monitor(mon)
    try:
        pre_allin_cards = None
        guard = 0
        while st.status:
            guard += 1
            ctx.check(guard < 200, 'no-termination')
            if at_player_decision(st):
                ch = script[k] if k < len(script) else 'c'
                k += 1
                C.call(ctx, decide, st, ch)
                continue
            sel = list(st.runout_count_selector_indices)
            can_show = st.showdown_index is not None
            if not sel and not can_show:
                ctx.fail('stuck', lambda: f'{[type(o).__name__ for o in st.operations[-5:]]}')
            # is a selection due here at all?
            remaining = [i for i in range(n) if st.statuses[i]]
            board_to_come = any(s.board_dealing_count for s in st.streets[(st.street_index or 0) + 1:])
            if 'first_showdown' not in pot_totals:
                pot_totals['first_showdown'] = True
                due = (mode == 'C' and board_to_come and len(remaining) > 1
                       and sum(1 for i in remaining if st.stacks[i]) <= 1)
                ctx.check(bool(sel) == due, 'selection-not-offered-when-due' if due else 'selection-offered-when-not-due',
                          lambda: f'street {st.street_index} selectors {sel} stacks {st.stacks}')
            if sel:
                ctx.check(mode == 'C', 'selection-offered-in-tournament')
                ctx.check(all(st.stacks[i] == 0 for i in remaining) or sum(1 for i in remaining if st.stacks[i]) <= 1,
                          'selection-offered-though-not-all-in')
                ctx.check(board_to_come, 'selection-offered-with-no-cards-to-come')
                for i in sel:
                    ctx.check(i in remaining, 'selection-offered-to-folded-player')
                    ctx.check(i not in selected, 'selection-offered-twice', lambda: f'player {i}')
                if 'at_offer' not in pot_totals:
                    pot_totals['at_offer'] = list(remaining)
                if pre_allin_cards is None:
                    pre_allin_cards = sum(len(c) for c in st.board_cards) // max(1, boards) if False else len(st.board_cards)
                ctx.cover('offered')
            if sel and (not can_show or ctx.flag(f'select_first{len(st.operations)}')):
                who = sel[ctx.choice(f'who{len(st.operations)}', len(sel))]
                p = ctx.choice(f'pref{who}', maxpref + 1)
                pref = None if p == 0 else p
                ctx.check(st.can_select_runout_count(pref, who), 'cannot-select')
                op = C.call(ctx, st.select_runout_count, pref, who)
                ctx.check(op.player_index == who and op.runout_count == pref, 'selection-record')
                selected[who] = pref
                if st.status and (list(st.runout_count_selector_indices) or st.showdown_index is not None):
                    for done in selected:
                        ctx.check(not st.can_select_runout_count(2, done) and not st.can_select_runout_count(None, done),
                                  'player-can-select-twice', lambda: f'player {done}')
            else:
                C.call(ctx, st.show_or_muck_hole_cards, True)
        # ---- after the hand
        ctx.check(sum(st.stacks) == sum(st.starting_stacks), 'chips-not-conserved', lambda: f'{st.stacks}')
        expressed = [v for v in selected.values() if v is not None]
        if expressed and all(v == expressed[0] for v in expressed):
            r = expressed[0]
        else:
            r = 1
        if mode != 'C':
            ctx.check(not selected, 'selection-in-tournament')
        at_offer = pot_totals.pop('at_offer', None)
        pot_totals.pop('first_showdown', None)
        remaining = [i for i in range(n) if st.statuses[i]]
        if selected:
            ctx.check(sorted(selected) == sorted(at_offer), 'not-every-remaining-player-asked',
                      lambda: f'{selected} vs {at_offer}')
        if len(remaining) > 1:
            ctx.check(st.board_count == boards * r, 'board-count', lambda: f'{st.board_count} expected {boards}*{r} prefs {selected}')
            total = sum(s.board_dealing_count for s in st.streets)
            bs = [tuple(st.get_board_cards(i)) for i in range(st.board_count)]
            for b in bs:
                ctx.check(len(b) == total, 'incomplete-board', lambda: f'{bs}')
                ctx.check(len(set(b)) == len(b), 'card-twice-on-a-board')
            # run-outs of one starting board share exactly the pre-all-in cards; nothing else is shared
            shared = pre_allin_cards if (selected and pre_allin_cards is not None) else total
            for i in range(len(bs)):
                for j in range(i):
                    same_start = (i // r) == (j // r) if r > 1 else False
                    common = set(bs[i]) & set(bs[j])
                    if same_start:
                        ctx.check(bs[i][:shared] == bs[j][:shared] and len(common) == shared, 'runouts-do-not-share-early-streets',
                                  lambda: f'{bs[i]} {bs[j]} shared {shared}')
                    else:
                        ctx.check(not common, 'card-on-two-boards', lambda: f'{bs[i]} {bs[j]}')
            # each pot evenly over the boards, odd chips to board 0
            B = st.board_count
            for pi, tot in pot_totals.items():
                q, rem = divmod(tot, B)
                for b in range(B):
                    got = sum(a for (p, bb, a) in pushes if p == pi and bb == b)
                    ctx.check(got == q + (rem if b == 0 else 0), 'pot-not-evenly-divided-over-boards',
                              lambda: f'pot {pi} total {tot} board {b} got {got}')
            ctx.cover('showdown')
        ctx.cover('done')
    finally:
        C.set_monitor(None)


def jobs(tier: str, seed: int) -> list[dict]:
    out = []
    B = 300 if tier == 'quick' else 900
    for street in ('preflop', 'flop', 'turn', 'river', 'none'):
        for code, n, boards, stacks in (('NT', 2, 1, (41, 41)), ('NT', 3, 1, (41, 20, 41)), ('PO', 2, 2, (5, 5)), ('FO8', 2, 2, (5, 5)),
                                       ('NS', 2, 2, (41, 41))):
            for mode in ('C', 'T'):
                if mode == 'T' and street not in ('preflop', 'none'):
                    continue
                out.append(dict(name=f'{code}/n{n}/b{boards}/{street}/{mode}', fn='h_runout', traced=False,
                                params=dict(code=code, n=n, street=street, boards=boards, mode=mode, stacks=stacks),
                                budget_s=B, must_cover=['done']))
    # pot division over boards for EVERY deal: parametric evaluator + symbolic stacks (C02 oracle)
    out.append(dict(name='division/n2/2-starting-boards/symbolic-strengths', module='harness.c02', fn='h_showdown',
                    params=dict(n=2, depth=0, shape='allin', boards=2, levels=2), budget_s=B,
                    must_cover=['showdown']))
    out.append(dict(name='division/n3/2-starting-boards/symbolic-strengths/equal-stacks', module='harness.c02', fn='h_showdown',
                    params=dict(n=3, depth=0, shape='allin', boards=2, levels=2,
                                part=['s0==s1', 's1==s2']), budget_s=max(B, 450),
                    must_cover=['showdown'], prio=9))
    if tier == 'thorough':
        for street in ('preflop', 'flop', 'turn'):
            out.append(dict(name=f'PO/n3/b2/{street}/C', fn='h_runout', traced=False,
                            params=dict(code='PO', n=3, street=street, boards=2, mode='C', stacks=(5, 4, 5), maxpref=4),
                            budget_s=B, must_cover=['done']))
    return out
