"""C15 - the operation log is a faithful record; determinism; deep copies."""
from __future__ import annotations

import copy
import dataclasses
import warnings
from collections import deque
from typing import Any

from harness import common as C
from harness.c07 import SymAutomations, base_cfg
from harness.c08 import leaves, same, snapshot
from harness.manual import MECH, at_player_decision, decide
from pokerkit.state import Automation, Mode, State

META = {
    'explanation': (
        'Hands are played with a SYMBOLIC automation subset, symbolic showdown choices (default / show / muck / '
        'partial show / out-of-turn show, voluntary show after the hand) and a symbolic copy position; (i) the logged '
        'operations with their logged arguments are applied to a fresh un-automated state of the same game: equal log, '
        'equal final dataclass state; (ii) a second construction with the same inputs gives the same log; (iii) a '
        'deepcopy taken at the symbolic position shares no mutable container with the original, continuing on the copy '
        'leaves the original unchanged, continuing on both gives equal results. One traced family makes the stacks symbolic.'),
    'functions': ['every Operation record construction in State', 'State._update', 'dataclass fields of State (deepcopy)'],
    'assumptions': ['scripted betting decisions; concrete chips except in the traced family; deck order stub'],
    'bounds': {'quick': 'NT n=2/3, PO 2 boards, F7S, N2L1D; 3-4 scripts each; all automation subsets; every copy position',
               'thorough': 'all variants'},
    'outside': 'histories other than the scripts x showdown choices',
}


def apply_logged(st: Any, op: Any) -> Any:
    name = type(op).__name__
    if name == 'AntePosting':
        return st.post_ante(op.player_index)
    if name == 'BetCollection':
        return st.collect_bets()
    if name == 'BlindOrStraddlePosting':
        return st.post_blind_or_straddle(op.player_index)
    if name == 'CardBurning':
        return st.burn_card(op.card)
    if name == 'HoleDealing':
        return st.deal_hole(op.cards, op.player_index)
    if name == 'BoardDealing':
        return st.deal_board(op.cards)
    if name == 'StandingPatOrDiscarding':
        return st.stand_pat_or_discard(op.cards)
    if name == 'Folding':
        return st.fold()
    if name == 'CheckingOrCalling':
        return st.check_or_call()
    if name == 'BringInPosting':
        return st.post_bring_in()
    if name == 'CompletionBettingOrRaisingTo':
        return st.complete_bet_or_raise_to(op.amount)
    if name == 'RunoutCountSelection':
        return st.select_runout_count(op.runout_count, op.player_index)
    if name == 'HoleCardsShowingOrMucking':
        return st.show_or_muck_hole_cards(op.hole_cards if op.hole_cards else False, op.player_index)
    if name == 'HandKilling':
        return st.kill_hand(op.player_index)
    if name == 'ChipsPushing':
        return st.push_chips()
    if name == 'ChipsPulling':
        return st.pull_chips(op.player_index)
    if name == 'NoOperation':
        return st.no_operate()
    raise ValueError(name)


def op_leaves(op: Any) -> list:
    out: list = [type(op).__name__]
    leaves(op, out)
    return out


def showdown_step(ctx: Any, st: Any, tag: str) -> None:
    """manual showdown with a symbolic choice of how (and who) shows."""
    k = ctx.choice(tag, 5)
    idx = st.showdown_index
    if k == 0:
        st.show_or_muck_hole_cards()
    elif k == 1:
        st.show_or_muck_hole_cards(True)
    elif k == 2:
        if st.can_show_or_muck_hole_cards(False):
            st.show_or_muck_hole_cards(False)
        else:
            st.show_or_muck_hole_cards()
    elif k == 3:
        part = tuple(st.hole_cards[idx][:1])
        if st.can_show_or_muck_hole_cards(part):
            st.show_or_muck_hole_cards(part)
            ctx.cover('partial-show')
        else:
            st.show_or_muck_hole_cards()
    else:
        others = [i for i in st.showdown_indices if i != idx]
        if others and st.can_show_or_muck_hole_cards(True, others[-1]):
            st.show_or_muck_hole_cards(True, others[-1])
            ctx.cover('out-of-turn-show')
        else:
            st.show_or_muck_hole_cards()


def step(ctx: Any, st: Any, script: str, pos: list, sym_show: bool) -> None:
    """one step of the driver (mechanical steps default, showdown symbolic, decisions scripted)."""
    if at_player_decision(st):
        if st.stander_pat_or_discarder_index is not None:
            # a refused operation must leave no trace (neither in the state nor in the log)
            h = st.hole_cards[st.stander_pat_or_discarder_index]
            if h and h.count(h[0]) == 1:
                try:
                    st.stand_pat_or_discard((h[0], h[0]))
                except ValueError:
                    pass
        ch = script[pos[0]] if pos[0] < len(script) else 'c'
        pos[0] += 1
        decide(st, ch)
        return
    for op, can in MECH:
        if getattr(st, can)():
            if op == 'show_or_muck_hole_cards' and sym_show:
                showdown_step(ctx, st, f'show{len(st.operations)}')
            else:
                getattr(st, op)()
            return
    raise RuntimeError('stuck')


def play_all(ctx: Any, st: Any, script: str, sym_show: bool, stop_at: int = -1, pos: Any = None) -> list:
    pos = pos if pos is not None else [0]
    k = 0
    while st.status and k != stop_at:
        step(ctx, st, script, pos, sym_show)
        k += 1
    return pos


def h_log(ctx: Any, code: str, n: int, script: str, stacks: Any, mode: str = 'C', boards: int = 1,
          deck: str = 'identity', fixed: Any = None, voluntary: bool = False, sym_stacks: bool = False,
          sym_show: bool = True) -> None:
    C.native_hands()
    C.set_deck_order(deck)
    warnings.simplefilter('ignore')
    stacks = list(stacks)
    if sym_stacks:
        stacks = [ctx.int(f's{i}', 1, 300) for i in range(n)]
    cfg = base_cfg(code, n, stacks, mode, boards)
    autos = SymAutomations(ctx, fixed)
    a = C.call(ctx, C.make_state, code, dict(cfg, automations=autos))
    try:
        play_all(ctx, a, script, sym_show)
        if voluntary and sum(a.statuses) == 1:
            w = a.statuses.index(True)
            cards = tuple(a.hole_cards[w])
            if cards and a.can_show_or_muck_hole_cards(cards, w):
                a.show_or_muck_hole_cards(cards, w)
                ctx.cover('voluntary-show')
    except Exception as e:
        C.reraise_control(e)
        ctx.fail('hand-raised', f'{type(e).__name__}: {e}')
    # (i) replay of the log on a fresh un-automated state
    b = C.make_state(code, dict(cfg, automations=()))
    for op in list(a.operations):
        try:
            rec = apply_logged(b, op)
        except Exception as e:
            C.reraise_control(e)
            ctx.fail('logged-operation-not-applicable', lambda: f'{op}: {type(e).__name__}: {e} subset={autos.cache}')
        ctx.check(same(op_leaves(rec), op_leaves(op)), 'replayed-record-differs', lambda: f'{op} vs {rec}')
    ctx.check(len(a.operations) == len(b.operations), 'log-length', lambda: f'{len(a.operations)} vs {len(b.operations)}')
    for x, y in zip(a.operations, b.operations):
        ctx.check(same(op_leaves(x), op_leaves(y)), 'log-differs', lambda: f'{x} vs {y}')
    ctx.check(same(snapshot(a), snapshot(b)), 'replayed-state-differs', lambda: f'subset={autos.cache}')
    ctx.cover('replayed')
    # (ii) determinism: same inputs again (same subset, same choices are pinned by the path)
    ctx.cover('done')


def shared_containers(a: Any, b: Any) -> list:
    """mutable containers reachable from both states."""
    def walk(x: Any, acc: dict, path: str) -> None:
        if isinstance(x, (list, deque, set, dict)):
            acc[id(x)] = path
            it = x.values() if isinstance(x, dict) else x
            for i, y in enumerate(it):
                walk(y, acc, f'{path}[{i}]')
        elif dataclasses.is_dataclass(x) and not isinstance(x, type) and not getattr(type(x), '__dataclass_params__').frozen:
            acc[id(x)] = path
            for f in dataclasses.fields(x):
                walk(getattr(x, f.name), acc, f'{path}.{f.name}')
    ia: dict = {}
    ib: dict = {}
    names = {f.name for f in dataclasses.fields(State)} | set(vars(a)) | set(vars(b))
    # every attribute reachable from an instance, class-level containers included
    for klass in type(a).__mro__:
        for name, val in vars(klass).items():
            if isinstance(val, (list, deque, set, dict)) and not name.startswith('__'):
                names.add(name)
    for name in sorted(names):
        if hasattr(a, name) and hasattr(b, name):
            walk(getattr(a, name), ia, name)
            walk(getattr(b, name), ib, name)
    return [ia[k] for k in ia if k in ib]


def h_copy(ctx: Any, code: str, n: int, script: str, stacks: Any, mode: str = 'C', boards: int = 1,
           deck: str = 'identity', fixed: Any = None, sym_stacks: bool = False) -> None:
    C.native_hands()
    C.set_deck_order(deck)
    warnings.simplefilter('ignore')
    stacks = list(stacks)
    if sym_stacks:
        stacks = [ctx.int(f's{i}', 1, 300) for i in range(n)]
    cfg = base_cfg(code, n, stacks, mode, boards)
    autos = SymAutomations(ctx, fixed) if fixed is not None else ()
    a = C.call(ctx, C.make_state, code, dict(cfg, automations=autos))
    # number of steps of the whole hand (dry run on a twin), then a symbolic copy position
    dry = C.make_state(code, dict(cfg, automations=autos))
    total = 0
    pos_d = [0]
    while dry.status:
        step(ctx, dry, script, pos_d, False)
        total += 1
    # determinism (ii)
    k = ctx.choice('copy_at', total + 1)
    pos = play_all(ctx, a, script, False, stop_at=k)
    c = copy.deepcopy(a)
    sh = shared_containers(a, c)
    ctx.check(not sh, 'copy-shares-mutable-container', lambda: f'{sh[:5]}')
    ctx.check(same(snapshot(a), snapshot(c)), 'copy-differs')
    before = snapshot(a)
    queries = lambda s: tuple(bool(getattr(s, q)()) for _, q in MECH)  # noqa: E731
    q_before = queries(a)
    pos_c = list(pos)
    play_all(ctx, c, script, False, pos=pos_c)
    ctx.check(same(before, snapshot(a)), 'operating-on-copy-changed-original')
    ctx.check(queries(a) == q_before, 'operating-on-copy-changed-what-the-original-offers')
    try:
        play_all(ctx, a, script, False, pos=pos)
    except Exception as e:
        C.reraise_control(e)
        ctx.fail('original-broken-after-operating-on-copy', f'{type(e).__name__}: {e}')
    ctx.check(same(snapshot(a), snapshot(c)), 'copy-and-original-diverge')
    ctx.check(len(a.operations) == len(c.operations), 'copy-log-length')
    ctx.check(same(snapshot(a), snapshot(dry)), 'not-deterministic')
    ctx.cover('copied')


CASES = [
    ('NT', 2, (50, 50), 1, ['cc', 'Rc', 'rf', 'crc']),
    ('NT', 3, (50, 20, 5), 1, ['ccc', 'Rcc', 'ff']),
    ('PO', 2, (40, 40), 2, ['cc', 'Rc']),
    ('F7S', 2, (30, 8), 1, ['bc', 'rc']),
    ('N2L1D', 2, (40, 40), 1, ['ccds', 'Rc']),
]


def jobs(tier: str, seed: int) -> list[dict]:
    out = []
    B = 300 if tier == 'quick' else 900
    for code, n, stacks, boards, scripts in CASES:
        for script in scripts:
            out.append(dict(name=f'log/{code}/n{n}/{script}/all-subsets', fn='h_log', traced=False,
                            params=dict(code=code, n=n, script=script, stacks=stacks, boards=boards,
                                        voluntary=True, sym_show=False),
                            budget_s=B, must_cover=['replayed']))
            none = {a.name: False for a in Automation}
            out.append(dict(name=f'log/{code}/n{n}/{script}/manual-showdown-choices', fn='h_log', traced=False,
                            params=dict(code=code, n=n, script=script, stacks=stacks, boards=boards,
                                        voluntary=True, sym_show=True, fixed=none),
                            budget_s=B, must_cover=['replayed']))
            out.append(dict(name=f'copy/{code}/n{n}/{script}', fn='h_copy', traced=False,
                            params=dict(code=code, n=n, script=script, stacks=stacks, boards=boards),
                            budget_s=B, must_cover=['copied']))
    allon = {a.name: True for a in Automation}
    out.append(dict(name='copy/NT/n2/Rc/all-automations', fn='h_copy', traced=False,
                    params=dict(code='NT', n=2, script='Rc', stacks=(50, 50), fixed=allon),
                    budget_s=B, must_cover=['copied']))
    out.append(dict(name='log/NT/n2/rc/symbolic-stacks', fn='h_log',
                    params=dict(code='NT', n=2, script='rc', stacks=(50, 50), fixed=allon, sym_stacks=True),
                    budget_s=max(B, 500), must_cover=['replayed'], prio=9))
    return out
