"""C16 - hand histories survive a save/load round trip and replay to the same result."""
from __future__ import annotations

import time
import warnings
from decimal import Decimal
from typing import Any

from harness import common as C
from harness.manual import at_player_decision, decide
from pokerkit.state import Automation, Mode

META = {
    'explanation': (
        '(a) Hands of the 11 PHH variants are played (scripted betting; SYMBOLIC choices of showdown behaviour incl. '
        'out-of-order voluntary mucks, of the commentary string, of the user-defined fields, and of a corruption of one '
        'action line); HandHistory.from_game_state -> dumps -> loads must give an equal history, dumps again the identical '
        'text, and iterating the loaded history must reproduce actions, cards, final stacks and payoffs; a corrupted '
        '(inapplicable) action must raise, never truncate silently. Text stays concrete, the solver decides the choices. '
        '(b) E2: the string branch of HandHistory.dumps.clean_value is translated from its current source into z3 string '
        'terms; TOML 1.0 literal / multi-line literal string grammar as z3 regular expressions; for every string of '
        'length <= 8: emitted text is a TOML string and denotes the original. sat models are replayed through the real '
        'dumps/loads.'),
    'functions': ['HandHistory.from_game_state', 'HandHistory.dumps', 'HandHistory.loads', 'HandHistory.__iter__/state_actions',
                  'HandHistory.create_game', 'notation.parse_action', 'utilities.parse_value'],
    'assumptions': ['tomllib is the environment (TOML 1.0 grammar transcribed as regular expressions)',
                    'chips concrete (int, and Decimal in one family); single run-out',
                    'escaped (basic-string) region and quoted keys: decided by execution of the real dumps/loads over every ASCII code '
                    'point in 10 contexts and all words <= 3 (thorough: 4) over a 16-class alphabet, not by the z3 string encoding'],
    'bounds': {'quick': '11 variants x 2-3 scripts, n=2..3; 6 commentary strings, 8 user-field values; strings <= 7 (thorough: 8) characters over ASCII in E2',
               'thorough': 'more scripts'},
    'outside': 'multiple run-outs; strings longer than 7 (8) characters; non-ASCII in E2',
}

PHH = {'FT': 'FT', 'NT': 'NT', 'NS': 'NS', 'PO': 'PO', 'FO8': 'FO/8', 'F7S': 'F7S', 'F7S8': 'F7S/8', 'FR': 'FR',
       'N2L1D': 'N2L1D', 'F2L3D': 'F2L3D', 'FB': 'FB'}
COMMENTS = [None, 'plain words', "it's", 'a # b', "say 'x' twice ''", 'tab\there']
USER_VALUES = [0, False, '', [], 7, 'text', [1, 2], {'a': 1}]
PLAYER_OPS = ('Folding', 'CheckingOrCalling', 'BringInPosting', 'CompletionBettingOrRaisingTo',
              'StandingPatOrDiscarding', 'HoleDealing', 'BoardDealing', 'HoleCardsShowingOrMucking')


def _norm(v: Any) -> str:
    from numbers import Number
    if isinstance(v, Number) and not isinstance(v, bool):
        return format(Decimal(str(v)).normalize(), 'f')
    return repr(v)


def essence(st: Any) -> list:
    """what the hand consisted of: betting/draw/showdown actions in order, and the cards every
    player and the board received in order (independent of how many cards one dealing call carried)."""
    out: list = []
    holes: dict = {}
    board: list = []
    for op in st.operations:
        name = type(op).__name__
        if name == 'HoleDealing':
            holes.setdefault(op.player_index, []).extend(repr(c) for c in op.cards)
        elif name == 'BoardDealing':
            board.extend(repr(c) for c in op.cards)
        elif name in PLAYER_OPS:
            d = {k: v for k, v in vars(op).items() if k != 'commentary'}
            out.append((name, sorted((k, _norm(v)) for k, v in d.items())))
    out.append(('holes', sorted(holes.items())))
    out.append(('board', board))
    return out


def h_roundtrip(ctx: Any, code: str, n: int, script: str, stacks: Any, decimal: bool = False,
                trim: bool = True, corrupt: bool = True, unknown_seat: int = -1, deck: str = 'identity') -> None:
    from pokerkit.notation import HandHistory
    C.native_hands()
    C.set_deck_order(deck)
    warnings.simplefilter('ignore')
    conv = (lambda x: Decimal(x) / 2) if decimal else (lambda x: x)
    stacks = tuple(conv(s) for s in stacks)
    cfg: dict = dict(n=n, stacks=stacks, antes=conv(2), ante_trimming_status=trim, mode=Mode.CASH_GAME)
    if C.is_stud(code):
        cfg.update(bring_in=conv(2), small_bet=conv(4), big_bet=conv(8))
    else:
        cfg['blinds'] = (conv(2), conv(4))
        if C.uses_small_big(code):
            cfg.update(small_bet=conv(4), big_bet=conv(8))
        else:
            cfg['min_bet'] = conv(4)
    autos = tuple(a for a in Automation if a != Automation.HOLE_CARDS_SHOWING_OR_MUCKING
                  and not (unknown_seat >= 0 and a == Automation.HOLE_DEALING))
    cfg['automations'] = autos
    game = C.make_game(code, cfg)
    st = game(stacks, n)
    k = 0
    guard = 0
    # one aspect varies per path (commentary / user fields / showdown behaviour / corruption)
    aspect = ctx.choice('aspect', 5)
    ci = ctx.choice('comment', len(COMMENTS)) if aspect == 0 else 0
    comment_at = ctx.choice('comment_at', 3) if aspect == 0 else 0
    acts = 0
    while st.status:
        guard += 1
        ctx.check(guard < 300, 'no-termination')
        if at_player_decision(st):
            ch = script[k] if k < len(script) else 'c'
            k += 1
            acts += 1
            if acts - 1 == comment_at and COMMENTS[ci] is not None and st.actor_index is not None and not st.can_post_bring_in():
                st.check_or_call(commentary=COMMENTS[ci])
                ctx.cover('commentary')
            else:
                decide(st, ch)
        elif st.can_deal_hole():
            if st.hole_dealee_index == unknown_seat and not st.hole_dealing_statuses[unknown_seat][0]:
                st.deal_hole('??')          # face-down cards of a player that the recorder does not know
                ctx.cover('unknown-cards')
            else:
                st.deal_hole()
        elif st.showdown_index is not None and st.showdown_index == unknown_seat:
            st.show_or_muck_hole_cards(False)
        elif st.showdown_index is not None:
            m = ctx.choice(f'sd{guard}', 3) if aspect == 2 else 0
            idx = st.showdown_index
            others = [i for i in st.showdown_indices if i != idx]
            if m == 1 and others and st.can_show_or_muck_hole_cards(False, others[-1]):
                st.show_or_muck_hole_cards(False, others[-1])      # voluntary muck out of showdown order
                ctx.cover('out-of-order-muck')
            elif m == 2 and st.can_show_or_muck_hole_cards(True):
                st.show_or_muck_hole_cards(True)
            else:
                st.show_or_muck_hole_cards()
        else:
            ctx.fail('stuck')
    ui = ctx.choice('user_value', len(USER_VALUES)) if aspect == 1 else 4
    user = {'_probe': USER_VALUES[ui], '_note with space': 'x'}
    hh = HandHistory.from_game_state(game, st, user_defined_fields=dict(user), players=[f'P{i}' for i in range(n)])
    ctx.check(hh.variant == PHH[code], 'variant-code')
    text = hh.dumps()
    try:
        hh2 = HandHistory.loads(text)
    except Exception as e:
        C.reraise_control(e)
        ctx.fail('saved-history-does-not-load', f'{type(e).__name__}: {e}\\n{text}')
    for f in ('variant', 'ante_trimming_status', 'antes', 'blinds_or_straddles', 'bring_in', 'small_bet', 'big_bet',
              'min_bet', 'starting_stacks', 'actions', 'players', 'user_defined_fields'):
        a, b = getattr(hh, f), getattr(hh2, f)
        ctx.check(a == b, 'field-changed-by-round-trip', lambda: f'{f}: {a!r} -> {b!r}')
    ctx.check(hh2.dumps() == text, 'second-dump-differs')
    # replay of the loaded history
    try:
        states = list(hh2)
    except Exception as e:
        C.reraise_control(e)
        ctx.fail('loaded-history-does-not-replay', f'{type(e).__name__}: {e}\\n{text}')
    end = states[-1]
    ctx.check(not end.status, 'replay-not-terminal')
    ctx.check([_norm(x) for x in end.stacks] == [_norm(x) for x in st.stacks], 'replayed-stacks-differ', lambda: f'{end.stacks} vs {st.stacks}\\n{text}')
    ctx.check([_norm(x) for x in end.payoffs] == [_norm(x) for x in st.payoffs], 'replayed-payoffs-differ')
    ea, eb = essence(st), essence(end)
    ctx.check(ea == eb, 'replayed-actions-or-cards-differ', lambda: f'{[x for x in zip(ea, eb) if x[0] != x[1]][:2]}')
    ca = [o.commentary for o in st.operations if o.commentary is not None]
    cb = [o.commentary for o in end.operations if o.commentary is not None]
    ctx.check(ca == cb, 'commentary-changed-by-replay', lambda: f'{ca!r} -> {cb!r}')
    # ... and writing the replayed hand down again gives the same action lines
    again = HandHistory.from_game_state(game, end, user_defined_fields=dict(user), players=[f'P{i}' for i in range(n)])
    ctx.check(again.actions == hh.actions, 'replayed-hand-is-written-differently',
              lambda: f'{[x for x in zip(hh.actions, again.actions) if x[0] != x[1]][:2]}')
    ctx.cover('round-trip')
    if aspect == 4:
        # a history may omit checks that cost nothing: the replay completes them
        cc_ops = [o for o in st.operations if type(o).__name__ == 'CheckingOrCalling']
        idx = [i for i, a in enumerate(hh.actions) if a.split()[1:2] == ['cc']]
        if len(cc_ops) == len(idx):
            drop = {i for i, o in zip(idx, cc_ops) if o.amount == 0 and o.commentary is None}
            if drop:
                slim = [a for i, a in enumerate(hh.actions) if i not in drop]
                hs = HandHistory.loads(HandHistory.from_game_state(game, st, actions=slim).dumps())
                try:
                    ends = list(hs)[-1]
                except Exception as e:
                    C.reraise_control(e)
                    ctx.fail('history-without-free-checks-does-not-replay', f'{type(e).__name__}: {e}: {slim}')
                ctx.check([_norm(x) for x in ends.stacks] == [_norm(x) for x in st.stacks] and essence(ends) == ea,
                          'omitted-checks-completed-differently', lambda: f'{slim}: {ends.stacks} vs {st.stacks}')
                ctx.cover('omitted-checks')
        return
    if not corrupt or aspect != 3:
        return
    # an inapplicable action must be reported, not skipped
    lines = [i for i, a in enumerate(hh.actions) if a.split()[:1] and a.split()[0].startswith('p') and ' sm' not in a]
    if lines:
        li = lines[ctx.choice('corrupt_line', len(lines))]
        kind = ctx.choice('corrupt_kind', 3)
        bad = list(hh.actions)
        w = bad[li].split()
        if kind == 0:
            w[0] = 'p' + str((int(w[0][1:]) % n) + 1)       # another player's name on the action
        elif kind == 1:
            w = [w[0], 'cbr', '1']                              # an amount below every minimum
        else:
            w = [w[0], 'xyz']                                   # not an action at all
        if ' '.join(w) != bad[li]:
            bad[li] = ' '.join(w)
            hb = HandHistory.loads(HandHistory.from_game_state(game, st, actions=bad).dumps())
            try:
                endb = list(hb)[-1]
                same_outcome = [_norm(x) for x in endb.stacks] == [_norm(x) for x in st.stacks] and essence(endb) == ea
                ctx.check(same_outcome or False, 'inapplicable-action-silently-accepted',
                          lambda: f'line {li}: {hh.actions[li]!r} -> {bad[li]!r}: replay ended with {endb.stacks}')
            except Exception as e:
                C.reraise_control(e)
                ctx.cover('corruption-reported')


def smt_strings(budget_s: float = 120, maxlen: int = 8) -> dict:
    """E2: string quoting of HandHistory.dumps vs the TOML literal-string grammar."""
    import ast
    import inspect
    import textwrap
    import z3
    from pokerkit import notation
    from pokerkit.notation import HandHistory
    t0 = time.time()
    src = textwrap.dedent(inspect.getsource(HandHistory.dumps))
    tree = ast.parse(src)
    fn = tree.body[0]
    branch = None
    for node in ast.walk(tree):
        if isinstance(node, ast.If) and isinstance(node.test, ast.Call) and getattr(node.test.func, 'id', '') == 'isinstance' \
                and getattr(node.test.args[1], 'id', '') == 'str' and getattr(node.test.args[0], 'id', '') == 'value':
            branch = node.body
    if branch is None:
        return dict(status='inconclusive', reason='string branch of clean_value not found', queries=0)
    # constants of dumps (character sets) are evaluated from their defining expressions in the current source
    consts: dict = {}
    for st_ in fn.body:
        if isinstance(st_, ast.Assign) and len(st_.targets) == 1 and isinstance(st_.targets[0], ast.Name):
            try:
                consts[st_.targets[0].id] = eval(compile(ast.Expression(st_.value), '<dumps-const>', 'eval'),
                                                 dict(vars(notation)), dict(consts))
            except Exception:
                break
        elif not (isinstance(st_, ast.Expr) and isinstance(getattr(st_, 'value', None), ast.Constant)):
            break
    v = z3.String('v')

    class Delegated:
        """the value is produced by a helper the string translator does not enter (decided by the E1 jobs)."""
        def __init__(self, name: str) -> None:
            self.name = name

    def ev(e: ast.AST, env: dict) -> Any:
        if isinstance(e, ast.Constant) and isinstance(e.value, str):
            return z3.StringVal(e.value)
        if isinstance(e, ast.Name):
            return env[e.id]
        if isinstance(e, ast.BinOp) and isinstance(e.op, ast.Add):
            return z3.Concat(ev(e.left, env), ev(e.right, env))
        if isinstance(e, ast.Compare) and isinstance(e.ops[0], ast.In):
            return z3.Contains(ev(e.comparators[0], env), ev(e.left, env))
        if isinstance(e, ast.BoolOp):
            parts = [ev(x, env) for x in e.values]
            return z3.Or(*parts) if isinstance(e.op, ast.Or) else z3.And(*parts)
        if isinstance(e, ast.UnaryOp) and isinstance(e.op, ast.Not):
            return z3.Not(ev(e.operand, env))
        if isinstance(e, ast.BinOp) and isinstance(e.op, ast.BitAnd):
            # set(<string>) & <constant set of characters>, used as a truth value
            l, r = e.left, e.right
            if isinstance(l, ast.Call) and getattr(l.func, 'id', '') == 'set' and isinstance(r, ast.Name) and r.id in consts \
                    and all(isinstance(c, str) and len(c) == 1 for c in consts[r.id]):
                sv = ev(l.args[0], env)
                # as ONE regular-expression membership (a disjunction of 30+ str.contains is `unknown` in z3)
                codes = sorted(ord(c) for c in consts[r.id])
                runs, lo = [], codes[0]
                for a_, b_ in zip(codes, codes[1:] + [None]):
                    if b_ is None or b_ != a_ + 1:
                        runs.append(z3.Range(chr(lo), chr(a_)) if lo != a_ else z3.Re(chr(a_)))
                        lo = b_
                cls = runs[0] if len(runs) == 1 else z3.Union(*runs)
                anyc = z3.Star(z3.Range(chr(0), chr(0x7f)))
                return z3.InRe(sv, z3.Concat(anyc, cls, anyc))
        if isinstance(e, ast.Call) and isinstance(e.func, ast.Name) and e.func.id.startswith('clean_'):
            return Delegated(e.func.id)
        raise NotImplementedError(ast.dump(e)[:80])

    def run(stmts: list, env: dict, pc: Any, out: list) -> None:
        for i, s in enumerate(stmts):
            if isinstance(s, ast.Assign):
                env[s.targets[0].id] = ev(s.value, env)
            elif isinstance(s, ast.If):
                c = ev(s.test, env)
                e1, e2 = dict(env), dict(env)
                run(s.body + stmts[i + 1:], e1, z3.And(pc, c), out)
                run(s.orelse + stmts[i + 1:], e2, z3.And(pc, z3.Not(c)), out)
                return
            else:
                raise NotImplementedError(type(s).__name__)
        out.append((pc, env.get('cleaned_value')))
    paths: list = []
    try:
        run(branch, {'value': v}, z3.BoolVal(True), paths)
    except NotImplementedError as e:
        return dict(status='inconclusive', reason=f'translator: {e}', queries=0)
    # TOML 1.0: literal-char = %x09 / %x20-26 / %x28-7E (ASCII part); ml-literal body additionally newline and
    # up to two consecutive apostrophes
    ch = lambda lo, hi: z3.Range(chr(lo), chr(hi))  # noqa: E731
    lit_char = z3.Union(z3.Re('\t'), ch(0x20, 0x26), ch(0x28, 0x7e))
    q = z3.Re("'")
    literal = z3.Concat(q, z3.Star(lit_char), q)
    mll_char = z3.Union(lit_char, z3.Re('\n'))
    one_or_two = z3.Union(q, z3.Concat(q, q))
    body = z3.Concat(z3.Star(z3.Union(mll_char, z3.Concat(one_or_two, mll_char))), z3.Option(one_or_two))
    q3 = z3.Re("'''")
    ml = z3.Concat(q3, body, q3)
    ascii_only = z3.InRe(v, z3.Star(ch(0x00, 0x7f)))
    queries, samples, delegated = 0, [], []
    res = 'confirmed'
    for pc, emitted in paths:
        if isinstance(emitted, Delegated):
            # reachability of the delegated region is recorded; its content is decided by strings/basic/*
            s = z3.Solver()
            s.set('timeout', int(budget_s * 1000))
            s.add(z3.Length(v) <= maxlen, ascii_only, pc)
            r = str(s.check())
            queries += 1
            delegated.append(emitted.name)
            samples.append({'query': f'region handled by {emitted.name} is reachable (decided by the strings/basic jobs)', 'result': r})
            continue
        s = z3.Solver()
        s.set('timeout', int(budget_s * 1000))
        s.add(z3.Length(v) <= maxlen, ascii_only, pc)
        # denotes v: literal -> content between the quotes; multi-line -> content, a leading newline is trimmed
        ok_lit = z3.And(z3.InRe(emitted, literal), z3.SubString(emitted, 1, z3.Length(emitted) - 2) == v)
        inner = z3.SubString(emitted, 3, z3.Length(emitted) - 6)
        ok_ml = z3.And(z3.InRe(emitted, ml), inner == v, z3.Not(z3.PrefixOf(z3.StringVal('\n'), inner)))
        s.add(z3.Not(z3.Or(ok_lit, ok_ml)))
        t = time.time()
        r = str(s.check())
        queries += 1
        samples.append({'query': 'string quoting path: emitted text is a TOML literal string denoting v', 'result': r,
                        'solver_s': round(time.time() - t, 2)})
        if r == 'sat':
            val = s.model().eval(v, model_completion=True).as_string()
            val = val.encode().decode('unicode_escape') if '\\u' in val or '\\x' in val else val
            rep = replay_string(val)
            if rep['reproduced']:
                return dict(status='violation', kind='string-round-trip', detail=f'{val!r}: {rep}', queries=queries,
                            sample_queries=samples, replay={'values': {'string': val}, 'outcome': 'viol', 'trace': rep})
            return dict(status='harness-error', reason=f'string model {val!r} does not reproduce: {rep}', queries=queries)
        elif r != 'unsat':
            res = 'inconclusive'
    return dict(status=res, reason=f'unsat on every literal-string path; delegated: {delegated}', queries=queries,
                sample_queries=samples, solver_s=round(time.time() - t0, 2))


#: character classes for the escaped (basic-string) region and for keys
CLASS_ALPHABET = ['a', "'", '"', chr(92), '\n', '\r', '\t', '\x07', '\x7f', '\x00', ' ', '.', '#', '=', 'é', '\U0001f600']


def h_strings(ctx: Any, mode: str, length: int = 3) -> None:
    """real dumps -> loads of histories whose free-text fields / user keys are built from symbolic choices.
    mode 'chars': ONE code point (every ASCII code point and class representatives beyond) in several contexts;
    mode 'words': words over the class alphabet."""
    from pokerkit.notation import HandHistory
    warnings.simplefilter('ignore')
    if mode == 'chars':
        extra = [0x80, 0xe9, 0x7ff, 0x800, 0xd7ff, 0xe000, 0xffff, 0x10000, 0x10ffff]
        k = ctx.choice('cp', 128 + len(extra))
        c = chr(k) if k < 128 else chr(extra[k - 128])
        ctxs = [c, 'a' + c, c + 'a', c + c, "'" + c, c + "'", "'''" + c, c + "'''", chr(92) + c, '"' + c + '"']
        word = ctxs[ctx.choice('context', len(ctxs))]
    else:
        n = ctx.choice('len', length + 1)
        word = ''.join(CLASS_ALPHABET[ctx.choice(f'c{i}', len(CLASS_ALPHABET))] for i in range(n))
    as_key = ctx.flag('as-key')
    fields = {('_' + word if as_key else '_s'): word, '_nested': {word: [word]} if as_key else [word]}
    hh = HandHistory(variant='NT', antes=[0, 0], blinds_or_straddles=[1, 2], min_bet=2, starting_stacks=[10, 10],
                     actions=['d dh p1 AsKs', 'd dh p2 2c2d', 'p1 f'], user_defined_fields=fields, event=word, venue=word)
    try:
        text = hh.dumps()
        back = HandHistory.loads(text)
    except Exception as e:
        C.reraise_control(e)
        ctx.fail('string-round-trip-raised', f'{word!r}: {type(e).__name__}: {e}')
    ctx.check(back.user_defined_fields == fields, 'user-field-changed', lambda: f'{fields!r} -> {back.user_defined_fields!r}')
    ctx.check(back.event == word and back.venue == word, 'text-field-changed', lambda: f'{word!r} -> {back.event!r}')
    ctx.check(back == hh, 'history-changed', lambda: f'{word!r}')
    ctx.check(back.dumps() == text, 'second-dump-differs', lambda: f'{word!r}')
    ctx.cover('done')


def replay_string(val: str) -> dict:
    from pokerkit.notation import HandHistory
    hh = HandHistory(variant='NT', antes=[0, 0], blinds_or_straddles=[1, 2], min_bet=2, starting_stacks=[10, 10],
                     actions=[], user_defined_fields={'_s': val})
    try:
        back = HandHistory.loads(hh.dumps()).user_defined_fields.get('_s')
        return {'reproduced': back != val, 'loaded': repr(back)}
    except Exception as e:
        return {'reproduced': True, 'error': f'{type(e).__name__}: {e}'[:200]}


def regression_f10() -> dict:
    """F10 was repaired (fix: commit in known_findings.json): its listed inputs must round-trip."""
    hits = []
    for val in ('line1\nline2', "it's ''' three", 'bell\x07'):
        if replay_string(val)['reproduced']:
            hits.append(repr(val))
    from pokerkit.notation import HandHistory
    import warnings as w
    w.simplefilter('ignore')
    hh = HandHistory(variant='NT', antes=[0, 0], blinds_or_straddles=[1, 2], min_bet=2, starting_stacks=[10, 10],
                     actions=[], user_defined_fields={'_a.b': 1})
    try:
        if HandHistory.loads(hh.dumps()).user_defined_fields != {'_a.b': 1}:
            hits.append("key '_a.b'")
    except Exception:
        hits.append("key '_a.b'")
    if hits:
        return dict(status='violation', kind='F10-returned',
                    detail='strings / keys that do not survive dumps->loads: ' + ', '.join(hits),
                    replay={'values': {'inputs': hits}, 'outcome': 'viol'})
    return dict(status='confirmed', reason='the repaired F10 inputs round-trip', native_replays=4)


CASES = [
    ('NT', 2, (60, 60), ['cc', 'Rc', 'rf']), ('NT', 3, (60, 30, 7), ['ccc', 'Rcc']),
    ('FT', 2, (60, 60), ['crc']), ('NS', 2, (60, 60), ['cc']), ('PO', 2, (60, 60), ['cc', 'rc']),
    ('FO8', 2, (60, 60), ['cc']), ('F7S', 2, (60, 60), ['bc', 'rc']), ('F7S8', 2, (60, 60), ['bc']),
    ('FR', 2, (60, 60), ['bc']), ('N2L1D', 2, (60, 60), ['ccds', 'rcsd']), ('F2L3D', 2, (60, 60), ['ccdsdsds']),
    ('FB', 2, (60, 60), ['ccdd']),
]


def jobs(tier: str, seed: int) -> list[dict]:
    out = []
    B = 300 if tier == 'quick' else 900
    more = [
        ('NT', 3, (60, 60, 60), ['ccc', 'rfc', 'fRc']), ('NT', 4, (60, 30, 7, 60), ['cccc', 'Rccc']), ('FT', 3, (60, 60, 60), ['crcc']),
        ('NS', 3, (60, 60, 60), ['ccc']), ('PO', 3, (60, 60, 60), ['ccc', 'rcc']), ('FO8', 3, (60, 60, 60), ['ccc']),
        ('F7S', 3, (60, 60, 60), ['bcc', 'rcc']), ('F7S8', 3, (60, 60, 60), ['bcc']), ('FR', 3, (60, 60, 60), ['bcc']),
        ('N2L1D', 3, (60, 60, 60), ['cccdss']), ('F2L3D', 3, (60, 60, 60), ['cccdssdssdss']), ('FB', 3, (60, 60, 60), ['cccddd']),
    ] if tier == 'thorough' else []
    for code, n, stacks, scripts in CASES + more:
        for script in scripts:
            out.append(dict(name=f'roundtrip/{code}/n{n}/{script}', fn='h_roundtrip', traced=False,
                            params=dict(code=code, n=n, script=script, stacks=stacks), budget_s=B,
                            must_cover=['round-trip']))
    out.append(dict(name='roundtrip/NT/n2/short-ante/trim', fn='h_roundtrip', traced=False,
                    params=dict(code='NT', n=2, script='cc', stacks=(60, 1), trim=True), budget_s=B,
                    must_cover=['round-trip']))
    out.append(dict(name='roundtrip/NT/n2/short-ante/no-trim', fn='h_roundtrip', traced=False,
                    params=dict(code='NT', n=2, script='cc', stacks=(60, 1), trim=False), budget_s=B,
                    must_cover=['round-trip']))
    out.append(dict(name='roundtrip/NT/n2/decimal', fn='h_roundtrip', traced=False,
                    params=dict(code='NT', n=2, script='rc', stacks=(61, 61), decimal=True), budget_s=B,
                    must_cover=['round-trip']))
    # non-integral chips AND a pot divided between players (hi/lo halves of 1.75 resp. 2.5): the division helper
    # the history carries must be the game's
    out.append(dict(name='roundtrip/F7S8/n3/decimal/split', fn='h_roundtrip', traced=False,
                    params=dict(code='F7S8', n=3, script='Rfc', stacks=(61, 61, 61), decimal=True), budget_s=B,
                    must_cover=['round-trip']))
    out.append(dict(name='roundtrip/FO8/n2/decimal/split', fn='h_roundtrip', traced=False,
                    params=dict(code='FO8', n=2, script='Rc', stacks=(61, 61), decimal=True, deck='rot5'), budget_s=B,
                    must_cover=['round-trip']))
    for code, n, stacks, script in (('NT', 2, (60, 60), 'cc'), ('F7S', 2, (60, 60), 'bc'), ('N2L1D', 2, (60, 60), 'ccds')):
        out.append(dict(name=f'roundtrip/{code}/n{n}/{script}/unknown-cards', fn='h_roundtrip', traced=False,
                        params=dict(code=code, n=n, script=script, stacks=stacks, unknown_seat=0), budget_s=B,
                        must_cover=['round-trip', 'unknown-cards']))
    out.append(dict(name='strings/smt', kind='native', fn='smt_strings', params=dict(budget_s=200, maxlen=7 if tier == 'quick' else 8), budget_s=B + 200))
    out.append(dict(name='regression/F10', kind='native', fn='regression_f10', params={}, budget_s=30))
    out.append(dict(name='strings/basic/per-character', fn='h_strings', traced=False, params=dict(mode='chars'), budget_s=B,
                    must_cover=['done']))
    out.append(dict(name='strings/basic/words', fn='h_strings', traced=False,
                    params=dict(mode='words', length=3 if tier == 'quick' else 4), budget_s=B, must_cover=['done']))
    return out
