"""C17 - ACPC and Pluribus protocol output describes the hand that was played."""
from __future__ import annotations

import warnings
from typing import Any

from harness import common as C
from harness.manual import at_player_decision
from pokerkit.state import Automation, Mode

META = {
    'explanation': (
        'Fixed-limit and no-limit hold\'em hands with equal starting stacks are played with SYMBOLIC choices (solver-decided): '
        'fold/call/raise per decision, raise size among {minimum, middle, maximum}, voluntary muck at showdown, viewer seat. '
        'An oracle built from the harness\'s own tally of the actions (total chips committed per player) gives the expected '
        'action string, street separators, visible hole cards, board and Pluribus result; to_acpc_protocol / '
        'to_pluribus_protocol of the history must equal it; from_acpc_protocol of the Pluribus line must give a history '
        'that replays to the same stacks, actions and the same line.'),
    'functions': ['HandHistory.to_acpc_protocol', 'HandHistory.to_pluribus_protocol', 'HandHistory.from_acpc_protocol',
                  'ACPCProtocolParser._parse', 'HandHistory.from_game_state', 'notation.parse_action'],
    'assumptions': ['chips and cards concrete (text pipeline stays concrete); deck order stub; cash-game mode as the parser uses'],
    'bounds': {'quick': 'NT and FT, n=2 and 3 with the first 3-4 decisions symbolic, n=4..6 with the first 2-3, then check/call-down; every viewer seat',
               'thorough': 'n=2..6, 4-7 symbolic decisions'},
    'outside': 'decision sequences beyond the symbolic depth; unequal starting stacks (outside the property)',
}


def h_protocol(ctx: Any, code: str, n: int, depth: int, stack: int = 200, split_flop: bool = False,
               partial: bool = False, one_by_one: bool = False) -> None:
    from pokerkit.notation import HandHistory
    C.native_hands()
    C.set_deck_order('identity')
    warnings.simplefilter('ignore')
    autos = tuple(a for a in Automation if a != Automation.HOLE_CARDS_SHOWING_OR_MUCKING
                  and not (split_flop and a == Automation.BOARD_DEALING)
                  and not (one_by_one and a == Automation.HOLE_DEALING))
    cfg: dict = dict(n=n, stacks=(stack,) * n, antes=0, blinds=(1, 2), automations=autos, mode=Mode.CASH_GAME)
    if code == 'FT':
        cfg.update(small_bet=2, big_bet=4)
    else:
        cfg['min_bet'] = 2
    game = C.make_game(code, cfg)
    st = game((stack,) * n, n)
    committed = [0] * n
    for i in range(n):
        committed[i] = stack - st.stacks[i]
    actions = ''
    boards_seen = 0
    decisions = 0
    guard = 0
    shown: dict = {}

    def sync_boards() -> None:
        nonlocal actions, boards_seen
        # one separator per STREET, however many dealing calls the street took
        if split_flop:
            nb = len({st_i for st_i in street_of_board_op})
        else:
            nb = sum(1 for o in st.operations if type(o).__name__ == 'BoardDealing')
        while boards_seen < nb:
            actions += '/'
            boards_seen += 1

    street_of_board_op: list = []
    while st.status:
        guard += 1
        ctx.check(guard < 200, 'no-termination')
        sync_boards()
        if one_by_one and st.can_deal_hole():
            # hole cards dealt one card per operation, round the table (and written uncompressed below)
            st.deal_hole()
            continue
        if split_flop and st.can_deal_board():
            # the board of a street put out in several calls (pokerkit permits it)
            street_of_board_op.append(st.street_index)
            st.deal_board(1 if ctx.flag(f'one{guard}') else None)
            continue
        if at_player_decision(st):
            i = st.actor_index
            k = ctx.choice(f'k{guard}', 3) if decisions < depth else 1
            decisions += 1
            if k == 0 and st.can_fold():
                st.fold()
                actions += 'f'
            elif k == 2 and st.can_complete_bet_or_raise_to():
                lo = st.min_completion_betting_or_raising_to_amount
                hi = st.max_completion_betting_or_raising_to_amount
                size = ctx.choice(f'size{guard}', 3) if hi > lo else 0
                x = [lo, (lo + hi) // 2, hi][size]
                before = st.stacks[i]
                st.complete_bet_or_raise_to(x)
                committed[i] += before - st.stacks[i]
                actions += 'r' if code == 'FT' else f'r{committed[i]}'
                ctx.cover('raise')
            else:
                before = st.stacks[i]
                st.check_or_call()
                committed[i] += before - st.stacks[i]
                actions += 'c'
        elif st.showdown_index is not None:
            idx = st.showdown_index
            # (a muck during an all-in run-out ends the hand with an incomplete board, which the protocol
            # cannot express: voluntary mucks only at a regular final-street showdown)
            if not st.all_in_status and ctx.flag(f'muck{guard}') and st.can_show_or_muck_hole_cards(False):
                st.show_or_muck_hole_cards(False)
                ctx.cover('voluntary-muck')
            elif partial and not st.all_in_status and ctx.flag(f'part{guard}'):
                # cash game: only ONE of the two cards is turned over (the first or the second)
                which = st.hole_cards[idx][1 if ctx.flag(f'second{guard}') else 0]
                if st.can_show_or_muck_hole_cards((which,)):
                    op = st.show_or_muck_hole_cards((which,))
                    shown[idx] = shown.get(idx, '') + ''.join(repr(c) for c in op.hole_cards if c and repr(c) not in shown.get(idx, ''))
                    ctx.cover('partial-show')
                else:
                    op = st.show_or_muck_hole_cards()
                    if op.hole_cards:
                        shown[idx] = ''.join(repr(c) for c in op.hole_cards)
            else:
                op = st.show_or_muck_hole_cards()
                if op.hole_cards:
                    shown[idx] = ''.join(repr(c) for c in op.hole_cards)
        else:
            ctx.fail('stuck')
    sync_boards()
    dealt = {}
    for op in st.operations:
        if type(op).__name__ == 'HoleDealing':
            dealt[op.player_index] = dealt.get(op.player_index, '') + ''.join(repr(c) for c in op.cards)
    if split_flop:
        per_street: dict = {}
        for si, op in zip(street_of_board_op, [o for o in st.operations if type(o).__name__ == 'BoardDealing']):
            per_street[si] = per_street.get(si, '') + ''.join(repr(c) for c in op.cards)
        board = ''.join('/' + per_street[k] for k in sorted(per_street))
    else:
        board = ''.join('/' + ''.join(repr(c) for c in op.cards) for op in st.operations if type(op).__name__ == 'BoardDealing')
    hh = HandHistory.from_game_state(game, st, not (one_by_one or (split_flop and ctx.flag('uncompressed'))), hand=7)
    # ---- Pluribus line
    if code == 'NT':
        try:
            line = hh.to_pluribus_protocol()
        except Exception as e:
            C.reraise_control(e)
            ctx.fail('to_pluribus_protocol-raised', f'{type(e).__name__}: {e}')
        payoffs = '|'.join(str(st.stacks[i] - stack) for i in range(n))
        exp = f"STATE:7:{actions}:{'|'.join(dealt[i] for i in range(n))}{board}:{payoffs}:{'|'.join(f'p{i + 1}' for i in range(n))}"
        ctx.check(line == exp, 'pluribus-line', lambda: f'got      {line}\\nexpected {exp}')
        # parse it back
        try:
            back = list(HandHistory.from_acpc_protocol(game, stack, line, error_status=True))
        except Exception as e:
            C.reraise_control(e)
            ctx.fail('pluribus-line-does-not-parse', f'{type(e).__name__}: {e}: {line}')
        ctx.check(len(back) == 1, 'parsed-history-count')
        try:
            end = list(back[0])[-1]
        except Exception as e:
            C.reraise_control(e)
            ctx.fail('parsed-history-does-not-replay', f'{type(e).__name__}: {e}: {line}')
        # hands mucked voluntarily are shown by the protocol replay (all cards known): compare betting only
        bet_ops = lambda s: [(type(o).__name__, o.player_index, getattr(o, 'amount', None)) for o in s.operations  # noqa: E731
                             if type(o).__name__ in ('Folding', 'CheckingOrCalling', 'CompletionBettingOrRaisingTo')]
        ctx.check(bet_ops(end) == bet_ops(st), 'parsed-history-replays-to-different-actions',
                  lambda: f'{line}: {bet_ops(end)} vs {bet_ops(st)}')
        if 'voluntary-muck' not in ctx.covered and 'partial-show' not in ctx.covered:
            ctx.check(list(end.stacks) == list(st.stacks), 'parsed-history-replays-to-different-stacks',
                      lambda: f'{line}: {end.stacks} vs {st.stacks}')
            ctx.check(back[0].to_pluribus_protocol() == line, 'line-not-reproduced', lambda: f'{back[0].to_pluribus_protocol()} vs {line}')
        ctx.cover('pluribus')
    # ---- ACPC match states, every viewer seat
    pos = ctx.choice('viewer', n)
    try:
        msgs = list(hh.to_acpc_protocol(pos, 7))
    except Exception as e:
        C.reraise_control(e)
        ctx.fail('to_acpc_protocol-raised', f'{type(e).__name__}: {e}')
    final = msgs[-1][1]
    vis = []
    for i in range(n):
        vis.append(dealt[i] if i == pos else shown.get(i, ''))
    exp = f"MATCHSTATE:{pos}:7:{actions}:{'|'.join(vis)}{board}\r\n"
    ctx.check(final == exp, 'acpc-final-match-state', lambda: f'got      {final!r}\\nexpected {exp!r}')
    # every prefix message carries a prefix of the action string, and the viewer's own actions are echoed
    n_dec = sum(1 for ch in actions if ch in 'fcr')
    sent = [m for d, m in msgs if d == 'S->']
    ctx.check(len(sent) == n_dec + 1, 'acpc-message-count', lambda: f'{len(sent)} vs {n_dec + 1}')
    for d, m in msgs:
        parts = m.rstrip('\r\n').split(':')
        ctx.check(parts[0] == 'MATCHSTATE' and parts[1] == str(pos) and parts[2] == '7', 'acpc-header', m)
        ctx.check(actions.startswith(parts[3]), 'acpc-actions-not-a-prefix', lambda: f'{parts[3]} of {actions}')
    ctx.cover('acpc')


def jobs(tier: str, seed: int) -> list[dict]:
    out = []
    B = 300 if tier == 'quick' else 900
    for code in ('NT', 'FT'):
        for n, depth in ((2, 4), (3, 3)):
            out.append(dict(name=f'{code}/n{n}/d{depth}', fn='h_protocol', traced=False,
                            params=dict(code=code, n=n, depth=depth), budget_s=B,
                            must_cover=['acpc'] + (['pluribus'] if code == 'NT' else [])))
    out.append(dict(name='NT/n2/d2/flop-card-by-card', fn='h_protocol', traced=False,
                    params=dict(code='NT', n=2, depth=2, split_flop=True), budget_s=B, must_cover=['acpc', 'pluribus']))
    out.append(dict(name='NT/n2/d2/partial-shows', fn='h_protocol', traced=False,
                    params=dict(code='NT', n=2, depth=2, partial=True), budget_s=B, must_cover=['acpc', 'pluribus', 'partial-show']))
    out.append(dict(name='FT/n3/d1/partial-shows', fn='h_protocol', traced=False,
                    params=dict(code='FT', n=3, depth=1, partial=True), budget_s=B, must_cover=['acpc', 'partial-show']))
    out.append(dict(name='NT/n3/d2/one-card-deals/uncompressed', fn='h_protocol', traced=False,
                    params=dict(code='NT', n=3, depth=2, one_by_one=True, split_flop=True), budget_s=B,
                    must_cover=['acpc', 'pluribus']))
    out.append(dict(name='NT/n2/d5/short', fn='h_protocol', traced=False,
                    params=dict(code='NT', n=2, depth=5, stack=20), budget_s=B, must_cover=['acpc', 'pluribus']))
    # 4-6 players (the quantifier's upper end): fewer symbolic decisions, then check/call-down
    for code, n, depth in (('NT', 4, 3), ('NT', 6, 2), ('FT', 5, 2)):
        out.append(dict(name=f'{code}/n{n}/d{depth}', fn='h_protocol', traced=False,
                        params=dict(code=code, n=n, depth=depth), budget_s=3 * B,
                        must_cover=['acpc'] + (['pluribus'] if code == 'NT' else [])))
    if tier == 'thorough':
        for code, n, depth in (('NT', 4, 5), ('NT', 6, 3), ('NT', 5, 4), ('FT', 4, 5), ('FT', 6, 4), ('NT', 3, 6), ('NT', 2, 7)):
            out.append(dict(name=f'{code}/n{n}/d{depth}', fn='h_protocol', traced=False,
                            params=dict(code=code, n=n, depth=depth), budget_s=B,
                            must_cover=['acpc'] + (['pluribus'] if code == 'NT' else [])))
    return out
