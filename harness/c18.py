"""C18 - range notation, equities and ICM values are mathematically consistent."""
from __future__ import annotations

import time
import warnings

from pokerkit.state import Automation
from typing import Any

from harness import common as C

META = {
    'explanation': (
        'Ranges: parse_range runs on notation built from rank characters selected by SYMBOLIC (pinned) indices and '
        'every form template; an oracle expanding the form by rank indices gives the expected set (6/4/12 combinations, '
        'XY = XYs + XYo disjoint, "+" and "-" forms = union of members, separators interchangeable, elements are two '
        'distinct real cards). Equities: the real calculate_equities on fully specified deals with a parametric evaluator '
        '(strength per player/type = z3 integer, optional no-low): shares >= 0, sum 1, independent of sample_count, equal '
        'to the share rule of the engine/C02 oracle; and, with the real hand types of 10 predefined variants (hi, lo, hi/lo, '
        'draw, stud), equal to the fractions of the pot the REAL engine pushes for the same checked-down deal (208 solver-chosen '
        'deck orders per variant and player count). ICM: the REAL calculate_icm is executed on z3 Real variables '
        '(operator overloading, no translation; for the order obligation also cut at chip_percentages, the cut checked on the AST '
        'and the composition checked term by term) and z3 (nlsat) proves non-negativity, sum = prize pool and chip order => '
        'value order for all positive chips and non-increasing payouts.'),
    'functions': ['analysis.parse_range', 'analysis.__parse_range', 'analysis.calculate_equities', 'analysis.__calculate_equities_0',
                  'analysis.calculate_hand_strength', 'analysis.calculate_icm'],
    'assumptions': ['random.sample / random.choices stubbed (deals are fully specified: nothing is sampled)',
                    'ICM over the reals (binary64 rounding outside the claim)', 'equity shares compared with tolerance 1e-9 (concrete floats per path)'],
    'bounds': {'quick': 'all 13x13 rank pairs for XY/XYs/XYo/+ forms, all valid 4-rank intervals; equities n=2,3 players, hi and hi/lo; ICM n<=3 players with <=3 payouts, n=4 with <=2',
               'thorough': 'ICM n=4 with 3-4 payouts'},
    'outside': 'sampling paths (random deals); ICM n > 4; player statistics',
}

ORDER = '23456789TJQKA'
SUITS = 'cdhs'


def expand(form: str, i0: int, i1: int, i2: int = 0, i3: int = 0) -> set:
    """oracle: the set of 2-card combos a form denotes (by rank indices)."""
    def combos(a: int, b: int, kind: str) -> set:
        out = set()
        for x in SUITS:
            for y in SUITS:
                ca, cb = ORDER[a] + x, ORDER[b] + y
                if ca == cb:
                    continue
                if a == b and kind == 's':
                    continue
                if kind == 's' and x != y:
                    continue
                if kind == 'o' and x == y and a != b:
                    continue
                out.add(frozenset((ca, cb)))
        return out
    kind = 's' if 's' in form else ('o' if 'o' in form else '')
    if form in ('XY', 'XYs', 'XYo'):
        return combos(i0, i1, kind)
    if form in ('XY+', 'XYs+', 'XYo+'):
        out = set()
        if i0 == i1:
            for k in range(i0, len(ORDER)):
                out |= combos(k, k, kind)
        else:
            hi, lo = max(i0, i1), min(i0, i1)
            for k in range(lo, hi):
                out |= combos(hi, k, kind)
        return out
    if form in ('XY-ZW', 'XYs-ZWs', 'XYo-ZWo'):
        out = set()
        a0, a1, b0, b1 = i0, i1, i2, i3
        if a0 > b0:
            a0, a1, b0, b1 = b0, b1, a0, a1
        for t in range(b0 - a0 + 1):
            out |= combos(a0 + t, a1 + t, kind)
        return out
    raise ValueError(form)


def h_ranges(ctx: Any, form: str) -> None:
    from pokerkit.analysis import parse_range
    i0 = ctx.choice('i0', 13)
    i1 = ctx.choice('i1', 13)
    i2 = i3 = 0
    kind = 's' if 's' in form else ('o' if 'o' in form else '')
    if '-' in form:
        i2 = ctx.choice('i2', 13)
        d = i1 - i0
        i3 = i2 + d
        ctx.assume(0 <= i3 <= 12)
        text = f'{ORDER[i0]}{ORDER[i1]}{kind}-{ORDER[i2]}{ORDER[i3]}{kind}'
    elif '+' in form:
        text = f'{ORDER[i0]}{ORDER[i1]}{kind}+'
    else:
        text = f'{ORDER[i0]}{ORDER[i1]}{kind}'
    exp = expand(form, i0, i1, i2, i3)
    try:
        got = parse_range(text)
    except Exception as e:
        C.reraise_control(e)
        ctx.fail('parse-raised', f'{text}: {type(e).__name__}: {e}')
    got_s = {frozenset(repr(c) for c in combo) for combo in got}
    ctx.check(got_s == exp, 'range-set', lambda: f'{text}: got {len(got_s)} expected {len(exp)}; missing {sorted(map(sorted, exp - got_s))[:4]} extra {sorted(map(sorted, got_s - exp))[:4]}')
    for combo in got:
        ctx.check(len(combo) == 2 and all(bool(c) for c in combo), 'not-two-distinct-real-cards', text)
    if form == 'XY':
        ctx.check(len(exp) == (6 if i0 == i1 else 16), 'count')
        s = parse_range(text + 's') if i0 != i1 else set()
        o = parse_range(text + 'o')
        ctx.check(not (s & o) and (s | o) == got, 'XY-not-disjoint-union-of-XYs-XYo', text)
    if form == 'XYs' and i0 != i1:
        ctx.check(len(got) == 4, 'suited-count', text)
    if form == 'XYo' and i0 != i1:
        ctx.check(len(got) == 12, 'offsuit-count', text)
    # separators are interchangeable, and a list of ranges is the union
    other = f'{ORDER[(i0 + 1) % 13]}{ORDER[(i0 + 1) % 13]}'
    u = parse_range(text) | parse_range(other)
    for sep in (' ', ',', ';', ', ', ' ; '):
        ctx.check(parse_range(text + sep + other) == u, 'separator', repr(sep))
    ctx.check(parse_range(text, other) == u, 'varargs')
    ctx.cover('done')


def h_equity(ctx: Any, n: int, hilo: bool, levels: int = 0) -> None:
    import pokerkit.analysis as A
    from harness.symhand import make_symhand
    from pokerkit.utilities import Deck
    A.sample = lambda population, k: list(population)[:k]
    A.choices = lambda population, k: [list(population)[0]] * k
    levels = levels or n
    types: tuple = (make_symhand(ctx, 'H', False, levels),)
    if hilo:
        types += (make_symhand(ctx, 'L', True, levels, allow_none=True),)
    deck = list(Deck.STANDARD)
    holes = [deck[2 * i:2 * i + 2] for i in range(n)]
    board = deck[20:25]
    res = []
    for sc in (1, 2, 3):
        eq = A.calculate_equities([[h] for h in holes], board, 2, 5, Deck.STANDARD, types, sample_count=sc)
        res.append(list(eq))
    # oracle: one pot, every hand type held by somebody gets an equal part, winners share it
    strength = [[t.lookup.strength(tuple(holes[i]) + tuple(board)) for i in range(n)] for t in types]
    held = [k for k in range(len(types)) if any(s is not None for s in strength[k])]
    exp = [0.0] * n
    for k in held:
        best = None
        for s in strength[k]:
            if s is not None and (best is None or s > best):
                best = s
        winners = [i for i in range(n) if strength[k][i] is not None and strength[k][i] == best]
        for i in winners:
            exp[i] += 1.0 / (len(held) * len(winners))
    for eq in res:
        ctx.check(len(eq) == n, 'length')
        ctx.check(all(e >= -1e-12 for e in eq), 'negative-share', lambda: f'{eq}')
        ctx.check(abs(sum(eq) - 1.0) < 1e-9, 'shares-do-not-sum-to-one', lambda: f'{eq}')
        ctx.check(all(abs(a - b) < 1e-9 for a, b in zip(eq, res[0])), 'depends-on-sample-count', lambda: f'{res}')
        ctx.check(all(abs(a - b) < 1e-9 for a, b in zip(eq, exp)), 'differs-from-the-engine-split', lambda: f'{eq} expected {exp}')
    ctx.cover('done')


ENGINE_GAMES = {
    # code: (kwargs for make_game beyond n/stacks/automations)
    'NT': dict(antes=0, blinds=(60, 120), min_bet=120), 'NS': dict(antes=60, blinds=(0, 120), min_bet=120),
    'PO': dict(antes=0, blinds=(60, 120), min_bet=120), 'FO8': dict(antes=0, blinds=(60, 120), small_bet=120, big_bet=240),
    'F7S': dict(antes=60, bring_in=60, small_bet=120, big_bet=240), 'F7S8': dict(antes=60, bring_in=60, small_bet=120, big_bet=240),
    'FR': dict(antes=60, bring_in=60, small_bet=120, big_bet=240),
    'N2L1D': dict(antes=0, blinds=(60, 120), min_bet=120), 'F2L3D': dict(antes=0, blinds=(60, 120), small_bet=120, big_bet=240),
    'FB': dict(antes=0, blinds=(60, 120), small_bet=120, big_bet=240),
}


def h_equity_engine(ctx: Any, code: str, n: int) -> None:
    """the REAL game engine pays a checked-down hand (deck order chosen by the solver among stride x rotation
    presets); calculate_equities with every card given must return exactly the fractions of the pot the engine paid."""
    import pokerkit.analysis as A
    from harness.manual import at_player_decision
    A.sample = lambda population, k: list(population)[:k]
    A.choices = lambda population, k: [list(population)[0]] * k
    stride = [1, 3, 5, 7, 9, 11, 15, 17][ctx.choice('stride', 8)]
    rot = ctx.choice('rot', 26) * 2
    C.set_deck_order(f'stride{stride}+rot{rot}')
    warnings.simplefilter('ignore')
    cfg = dict(ENGINE_GAMES[code], n=n, stacks=(12000,) * n, automations=tuple(Automation))
    st = C.make_state(code, cfg)
    guard = 0
    while st.status:
        guard += 1
        ctx.check(guard < 200, 'no-termination')
        if st.can_post_bring_in():
            st.post_bring_in()
        elif st.can_stand_pat_or_discard():
            st.stand_pat_or_discard()
        elif at_player_decision(st):
            st.check_or_call()
        else:
            ctx.fail('stuck')
    # everybody paid the same (check/call-down, equal stacks): what a player is pushed is his share of one pot
    paid = None
    for op in st.operations:
        if type(op).__name__ == 'ChipsPushing':
            paid = [0] * n if paid is None else paid
            for i, a in enumerate(op.amounts):
                paid[i] += a
    ctx.check(paid is not None, 'no-push')
    pot = sum(paid)
    ctx.check(pot > 0 and pot % 12 == 0, 'pot', lambda: f'{pot}')       # divisible: no odd chips in any split
    holes = []
    for i in range(n):
        cards = []
        for op in st.operations:
            if type(op).__name__ == 'HoleDealing' and op.player_index == i:
                cards.extend(op.cards)
        holes.append(cards)
    if any(type(op).__name__ == 'StandingPatOrDiscarding' and op.cards for op in st.operations):
        ctx.assume(False)
    board = [c for op in st.operations if type(op).__name__ == 'BoardDealing' for c in op.cards]
    hole_count = len(holes[0])
    ctx.check(all(len(h) == hole_count for h in holes), 'hole-count')
    res = []
    for sc in (1, 3):
        res.append(list(A.calculate_equities([[h] for h in holes], board, hole_count, len(board), st.deck, st.hand_types,
                                             sample_count=sc)))
    shares = [p / pot for p in paid]
    for eq in res:
        ctx.check(abs(sum(eq) - 1.0) < 1e-9 and all(e >= -1e-12 for e in eq), 'not-a-split-of-one-pot', lambda: f'{eq}')
        ctx.check(all(abs(a - b) < 1e-9 for a, b in zip(eq, shares)), 'differs-from-what-the-engine-paid',
                  lambda: f'{code} holes {holes} board {board}: equities {eq}, engine paid {paid} of {pot}')
    if len(set(shares)) > 1 and 0 < max(shares) < 1:
        ctx.cover('split')
    ctx.cover('done')


def h_equity_ranges(ctx: Any) -> None:
    """ranges whose combinations may collide with the board or with each other: impossible deals are
    left out, the result is the average over the possible ones (real hand types, concrete cards)."""
    import pokerkit.analysis as A
    from pokerkit.hands import StandardHighHand
    from pokerkit.utilities import Card, Deck
    A.sample = lambda population, k: list(population)[:k]
    A.choices = lambda population, k: [list(population)[i % len(population)] for i in range(k)]
    deck = list(Deck.STANDARD)
    pool = [c for c in deck if str(c.rank.value) in 'AKQ']          # 12 cards
    board = [deck[0], deck[5], deck[10], deck[15], pool[ctx.choice('b', len(pool))]]
    combos = [[pool[8], pool[4]], [pool[1], pool[2]], [pool[9], pool[5]]]     # Ac Kc / Qd Qh / Ad Kd: different strengths
    other = [[pool[ctx.choice('o1', len(pool))], pool[ctx.choice('o2', len(pool))]]]
    ctx.assume(other[0][0] != other[0][1])
    valid = []
    for c in combos:
        cards = c + other[0] + board
        if len(set(cards)) == len(cards):
            valid.append(c)
    ctx.assume(len(valid) >= 1 and len(set(other[0] + board)) == 7)
    k = 6 * len(valid)
    eq = A.calculate_equities([combos, other], board, 2, 5, Deck.STANDARD, (StandardHighHand,), sample_count=k)
    exp = [0.0, 0.0]
    for c in valid:
        h0 = StandardHighHand.from_game(c, board)
        h1 = StandardHighHand.from_game(other[0], board)
        if h0 > h1:
            exp[0] += 1.0
        elif h1 > h0:
            exp[1] += 1.0
        else:
            exp[0] += 0.5
            exp[1] += 0.5
    exp = [x / len(valid) for x in exp]
    ctx.check(abs(eq[0] - exp[0]) < 1e-9 and abs(eq[1] - exp[1]) < 1e-9, 'equity-over-impossible-deals',
              lambda: f'board {board} ranges {combos} vs {other}: {eq} expected {exp}')
    if len(valid) < len(combos):
        ctx.cover('collision')
    ctx.cover('done')


def h_icm_grid(ctx: Any, n: int, k: int) -> None:
    """ICM on small integer chip vectors (ties included) vs an exact reference built from Fractions."""
    from fractions import Fraction
    from itertools import permutations
    from pokerkit.analysis import calculate_icm
    chips = [1 + ctx.choice(f'c{i}', 3) for i in range(n)]
    payouts = [50, 30, 20, 10][:k]
    got = calculate_icm(payouts, chips)
    total = sum(chips)
    ref = [Fraction(0)] * n
    for order in permutations(range(n), k):
        p = Fraction(1)
        rest = Fraction(total)
        for i in order:
            p *= Fraction(chips[i]) / rest
            rest -= chips[i]
        for pay, i in zip(payouts, order):
            ref[i] += pay * p
    for i in range(n):
        ctx.check(abs(got[i] - float(ref[i])) < 1e-9, 'icm-value', lambda: f'{payouts} {chips}: {got} expected {[float(x) for x in ref]}')
        ctx.check(got[i] >= -1e-12, 'icm-negative')
        for j in range(n):
            if chips[i] >= chips[j]:
                ctx.check(got[i] >= got[j] - 1e-9, 'icm-order', lambda: f'{chips}: {got}')
    ctx.check(abs(sum(got) - sum(payouts)) < 1e-9, 'icm-sum')
    ctx.cover('done')


def smt_icm(n: int, k: int, budget_s: float = 250) -> dict:
    """the REAL calculate_icm executed on z3 Reals."""
    import z3
    from pokerkit.analysis import calculate_icm
    t0 = time.time()
    chips = [z3.Real(f'c{i}') for i in range(n)]
    pay = [z3.Real(f'p{j}') for j in range(k)]
    try:
        vals = calculate_icm(pay, chips)
    except Exception as e:
        return dict(status='inconclusive', queries=0,
                    reason=f'calculate_icm cannot be executed on z3 Reals any more: {type(e).__name__}: {e}'[:300])
    dom = [c > 0 for c in chips] + [p >= 0 for p in pay] + [pay[j] >= pay[j + 1] for j in range(k - 1)]
    obligations = [('nonneg', z3.Or(*[v < 0 for v in vals])), ('sum', sum(vals) != sum(pay))]
    for i in range(n):
        for j in range(n):
            if i != j:
                obligations.append((f'order{i}{j}', z3.And(chips[i] >= chips[j], vals[i] < vals[j])))
    samples, queries, res = [], 0, 'confirmed'
    for name, neg in obligations:
        s = z3.Solver()
        s.set('timeout', int(max(5, (budget_s - (time.time() - t0))) * 1000 / 2))
        s.add(*dom)
        s.add(neg)
        t = time.time()
        r = str(s.check())
        queries += 1
        samples.append({'query': f'icm n={n} payouts={k}: {name}', 'result': r, 'solver_s': round(time.time() - t, 2)})
        if r == 'sat':
            m = s.model()
            cv = [float(m.eval(c, model_completion=True).as_fraction()) for c in chips]
            pv = [float(m.eval(p, model_completion=True).as_fraction()) for p in pay]
            real = calculate_icm(pv, cv)
            bad = (min(real) < -1e-9 or abs(sum(real) - sum(pv)) > 1e-6 * max(1, sum(pv)) or
                   any(cv[i] >= cv[j] and real[i] < real[j] - 1e-9 for i in range(n) for j in range(n)))
            if bad:
                return dict(status='violation', kind='icm-' + name, detail=f'payouts {pv} chips {cv} -> {real}',
                            queries=queries, sample_queries=samples,
                            replay={'values': {'payouts': pv, 'chips': cv}, 'outcome': 'viol'})
            return dict(status='harness-error', reason=f'icm model does not reproduce in floats: {pv} {cv} {real}',
                        queries=queries)
        if r != 'unsat':
            res = 'inconclusive'
    return dict(status=res, reason='all unsat' if res == 'confirmed' else 'some unknown', queries=queries,
                solver_s=round(time.time() - t0, 2), sample_queries=samples[:6] + [x for x in samples if x['result'] != 'unsat'][:6])


def _split_icm() -> Any:
    """Cut calculate_icm (from the CURRENT source) at the assignment of chip_percentages.
    Returns (head, tail) or raises ValueError when the function no longer has that shape.
    head(chips) -> chip_percentages ; tail(payouts, n, chip_percentages) -> icms.
    The cut is sound only if the statements after it use `chips` through len() alone and never `chip_sum`:
    that is checked on the AST."""
    import ast
    import inspect
    import textwrap
    from pokerkit import analysis
    src = textwrap.dedent(inspect.getsource(analysis.calculate_icm))
    fn = ast.parse(src).body[0]
    body = [b for b in fn.body if not (isinstance(b, ast.Expr) and isinstance(getattr(b, 'value', None), ast.Constant))]
    cut = None
    for i, b in enumerate(body):
        if isinstance(b, ast.Assign) and len(b.targets) == 1 and isinstance(b.targets[0], ast.Name) \
                and b.targets[0].id == 'chip_percentages':
            cut = i
    if cut is None:
        raise ValueError('no chip_percentages assignment')
    head_body, tail_body = body[:cut + 1], body[cut + 1:]
    for b in tail_body:
        parents = {}
        for node in ast.walk(b):
            for ch in ast.iter_child_nodes(node):
                parents[ch] = node
        for node in ast.walk(b):
            if isinstance(node, ast.Name) and node.id in ('chips', 'chip_sum'):
                par = parents.get(node)
                ok = (node.id == 'chips' and isinstance(par, ast.Call) and isinstance(par.func, ast.Name)
                      and par.func.id == 'len' and isinstance(node.ctx, ast.Load))
                if not ok:
                    raise ValueError(f'{node.id} used after the cut at line {node.lineno}')
            if isinstance(node, ast.Name) and node.id == 'chip_percentages' and not isinstance(node.ctx, ast.Load):
                raise ValueError('chip_percentages reassigned after the cut')
    pay_stmts = [b for b in head_body if isinstance(b, ast.Assign) and isinstance(b.targets[0], ast.Name)
                 and b.targets[0].id == 'payouts']
    head_src = 'def head(payouts, chips):\n' + textwrap.indent('\n'.join(ast.unparse(b) for b in head_body), '    ') + \
               '\n    return chip_percentages\n'
    tail_src = 'def tail(payouts, chips, chip_percentages):\n' + \
               textwrap.indent('\n'.join(ast.unparse(b) for b in pay_stmts + tail_body), '    ') + '\n'
    ns = dict(vars(analysis))
    exec(compile(head_src, '<icm-head>', 'exec'), ns)
    exec(compile(tail_src, '<icm-tail>', 'exec'), ns)
    return ns['head'], ns['tail'], head_src, tail_src


def smt_icm_split(n: int, k: int, budget_s: float = 250) -> dict:
    """calculate_icm cut at chip_percentages (from the current source): head lemma + tail obligations +
    syntactic identity of tail(head(c)) with the whole function, all on z3 Reals."""
    import z3
    from pokerkit.analysis import calculate_icm
    t0 = time.time()
    try:
        head, tail, head_src, tail_src = _split_icm()
    except Exception as e:
        return dict(status='inconclusive', queries=0, reason=f'cut not applicable: {type(e).__name__}: {e}'[:300])
    chips = [z3.Real(f'c{i}') for i in range(n)]
    pay = [z3.Real(f'p{j}') for j in range(k)]
    q = [z3.Real(f'q{i}') for i in range(n)]
    try:
        whole = calculate_icm(pay, chips)
        hq = head(pay, chips)
        composed = tail(pay, [None] * n, hq)
        vals = tail(pay, [None] * n, q)
    except Exception as e:
        return dict(status='inconclusive', queries=0,
                    reason=f'calculate_icm cannot be executed on z3 Reals any more: {type(e).__name__}: {e}'[:300])
    samples, queries, res = [], 0, 'confirmed'
    same = len(whole) == len(composed) == n and all(z3.simplify(a - b).eq(z3.RealVal(0)) or a.eq(b) for a, b in zip(whole, composed))
    samples.append({'query': f'icm n={n} payouts={k}: tail(head(c)) is the term the whole function builds', 'result': str(same)})
    if not same:
        return dict(status='inconclusive', queries=0, reason='composition of the two halves is not the whole function', sample_queries=samples)
    domc = [c > 0 for c in chips]
    domq = [x > 0 for x in q] + [sum(q) == 1]
    domp = [p >= 0 for p in pay] + [pay[j] >= pay[j + 1] for j in range(k - 1)]
    obligations = [('head: percentages positive', domc, z3.Or(*[h <= 0 for h in hq])),
                   ('head: percentages sum to one', domc, sum(hq) != 1)]
    for i in range(n):
        for j in range(n):
            if i != j:
                obligations.append((f'head: order{i}{j}', domc, z3.And(chips[i] >= chips[j], hq[i] < hq[j])))
    obligations += [('tail: nonneg', domq + domp, z3.Or(*[v < 0 for v in vals])),
                    ('tail: sum', domq + domp, sum(vals) != sum(pay))]
    for i in range(n):
        for j in range(n):
            if i != j:
                obligations.append((f'tail: order{i}{j}', domq + domp, z3.And(q[i] >= q[j], vals[i] < vals[j])))
    for name, dom, neg in obligations:
        s = z3.Solver()
        s.set('timeout', int(max(5, (budget_s - (time.time() - t0))) * 1000 / 2))
        s.add(*dom)
        s.add(neg)
        t = time.time()
        r = str(s.check())
        queries += 1
        samples.append({'query': f'icm n={n} payouts={k}: {name}', 'result': r, 'solver_s': round(time.time() - t, 2)})
        if r == 'sat':
            m = s.model()
            src = chips if name.startswith('head') else q
            cv = [float(m.eval(c, model_completion=True).as_fraction()) for c in src]
            pv = [float(m.eval(p, model_completion=True).as_fraction()) for p in pay]
            real = calculate_icm(pv, cv)
            bad = (min(real) < -1e-9 or abs(sum(real) - sum(pv)) > 1e-6 * max(1, sum(pv)) or
                   any(cv[i] >= cv[j] and real[i] < real[j] - 1e-9 for i in range(n) for j in range(n)))
            if bad:
                return dict(status='violation', kind='icm-' + name, detail=f'payouts {pv} chips {cv} -> {real}',
                            queries=queries, sample_queries=samples,
                            replay={'values': {'payouts': pv, 'chips': cv}, 'outcome': 'viol'})
            return dict(status='harness-error', reason=f'icm model does not reproduce in floats: {name}: {pv} {cv} {real}',
                        queries=queries)
        if r != 'unsat':
            res = 'inconclusive'
    return dict(status=res, reason='all unsat' if res == 'confirmed' else 'some unknown', queries=queries,
                solver_s=round(time.time() - t0, 2),
                sample_queries=samples[:8] + [x for x in samples if x['result'] not in ('unsat', 'True')][:6])


def jobs(tier: str, seed: int) -> list[dict]:
    out = []
    B = 300 if tier == 'quick' else 900
    for form in ('XY', 'XYs', 'XYo', 'XY+', 'XYs+', 'XYo+', 'XY-ZW', 'XYs-ZWs', 'XYo-ZWo'):
        out.append(dict(name=f'ranges/{form}', fn='h_ranges', traced=False, params=dict(form=form), budget_s=B,
                        must_cover=['done']))
    for n in (2, 3):
        for hilo in (False, True):
            out.append(dict(name=f'equities/n{n}/{"hilo" if hilo else "hi"}', fn='h_equity',
                            params=dict(n=n, hilo=hilo, levels=2 if (hilo and n == 3) else 0), budget_s=B,
                            must_cover=['done']))
    for code, n in (('NT', 2), ('NT', 3), ('NS', 2), ('PO', 2), ('FO8', 2), ('FO8', 3), ('F7S', 2), ('F7S8', 2), ('F7S8', 3),
                    ('FR', 2), ('FR', 3), ('N2L1D', 2), ('F2L3D', 2), ('FB', 2), ('FB', 3)):
        out.append(dict(name=f'equities/engine/{code}/n{n}', fn='h_equity_engine', traced=False, params=dict(code=code, n=n),
                        budget_s=B, must_cover=['done']))
    out.append(dict(name='equities/ranges-with-collisions', fn='h_equity_ranges', traced=False, params={}, budget_s=B,
                    must_cover=['done', 'collision']))
    for n, k in ((2, 2), (3, 2), (3, 3), (4, 3)):
        out.append(dict(name=f'icm/grid/n{n}/payouts{k}', fn='h_icm_grid', traced=False, params=dict(n=n, k=k),
                        budget_s=B, must_cover=['done']))
    for n, k in ((2, 1), (2, 2), (3, 1), (3, 2), (4, 1)):
        out.append(dict(name=f'icm/n{n}/payouts{k}', kind='native', fn='smt_icm', params=dict(n=n, k=k, budget_s=B),
                        budget_s=B))
    # cut at chip_percentages (normalised chips): decides the order obligations the monolithic query leaves unknown
    for n, k in ((2, 2), (3, 2), (3, 3)):
        out.append(dict(name=f'icm/split/n{n}/payouts{k}', kind='native', fn='smt_icm_split', params=dict(n=n, k=k, budget_s=B),
                        budget_s=B))
    if tier == 'thorough':
        # (4,2) and larger: the order obligations stay `unknown` in z3 nlsat after 600 s each (reported as inconclusive)
        for n, k in ((4, 2), (4, 3), (4, 4), (5, 2)):
            out.append(dict(name=f'icm/split/n{n}/payouts{k}', kind='native', fn='smt_icm_split',
                            params=dict(n=n, k=k, budget_s=B), budget_s=B))
    return out
