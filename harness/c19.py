"""C19 - equivalent ways of writing chips and cards mean the same thing;
invalid layouts are rejected; divmod/rake parts add up."""
from __future__ import annotations

from typing import Any

from harness import common as C

META = {
    'explanation': (
        'Real clean_values / Card.parse / Card.clean / State.__post_init__ / utilities.divmod / utilities.rake '
        'executed symbolically: chip amounts, mapping keys and sequence contents are z3 integers; card ranks, '
        'suits and raw characters are pinned symbolic indices (finite domains exhausted through the solver). '
        'Each representation is compared with the explicit per-player list; constructor rejection is compared '
        'with the documented conditions.'),
    'functions': ['utilities.clean_values', 'Card.parse', 'Card.clean', 'Card.__repr__',
                  'State.__post_init__', 'utilities.divmod', 'utilities.rake', 'Poker.__call__'],
    'assumptions': ['int chips',
                    'rake: lemma A (0 <= round(amount*percentage) <= amount for 0<=percentage<=1) is discharged by z3 in QF_FP '
                    'only at binary16 width (amount < 2**11, 1 s); binary32 was unknown after 600 s and binary64 is out of reach, '
                    'so for binary64 lemma A is an ASSUMPTION (monotone IEEE rounding); obligations B (LIA) use it for amount < 2**53',
                    'divisor of divmod pinned to 1..9'],
    'bounds': {'quick': 'player count 2..4, sequences up to count+1 entries, mappings with 2 entries, card text of 1-2 cards, raw text of <= 2 printable ASCII characters',
               'thorough': 'same (spaces are finite and exhausted)'},
    'outside': 'text longer than 2 raw characters / 2 cards; non-int chips other than the grid p/10^e, p<100, e<=2 as Fraction, Decimal, float',
}


def h_clean_number(ctx: Any, count: int) -> None:
    from pokerkit.utilities import clean_values
    v = ctx.int('v', -10 ** 6, 10 ** 6)
    r = clean_values(v, count)
    ctx.check(isinstance(r, tuple) and len(r) == count, 'shape')
    for x in r:
        ctx.check(x == v, 'number-form')
    ctx.cover('done')


def h_clean_seq(ctx: Any, count: int, length: int) -> None:
    from pokerkit.utilities import clean_values
    vals = [ctx.int(f'v{i}', -10 ** 6, 10 ** 6) for i in range(length)]
    exp = (vals + [0] * count)[:count]
    for form in (list(vals), tuple(vals), iter(list(vals))):
        r = clean_values(form, count)
        ctx.check(isinstance(r, tuple) and len(r) == count, 'shape')
        for a, b in zip(r, exp):
            ctx.check(a == b, 'sequence-form')
    ctx.cover('done')


def h_clean_map(ctx: Any, count: int) -> None:
    from pokerkit.utilities import clean_values
    k0 = ctx.choice('k0', 2 * count) - count
    k1 = ctx.choice('k1', 2 * count) - count
    v0 = ctx.int('v0', -10 ** 6, 10 ** 6)
    v1 = ctx.int('v1', -10 ** 6, 10 ** 6)
    m = {k0: v0}
    exp = [0] * count
    exp[k0 % count] += v0
    if k1 != k0:
        m[k1] = v1
        exp[k1 % count] += v1
    r = clean_values(m, count)
    ctx.check(isinstance(r, tuple) and len(r) == count, 'shape')
    for a, b in zip(r, exp):
        ctx.check(a == b, 'mapping-form', lambda: f'{m} -> {r} expected {exp}')
    ctx.cover('done')


PUBLIC = ['antes', 'blinds_or_straddles', 'starting_stacks', 'stacks', 'bets', 'payoffs',
          'statuses', 'actor_index', 'street_index', 'status', 'total_pot_amount',
          'checking_or_calling_amount', 'min_completion_betting_or_raising_to_amount',
          'max_completion_betting_or_raising_to_amount']


GETTERS = {name: eval(f'lambda s: s.{name}') for name in PUBLIC}


def _same_state(ctx: Any, a: Any, b: Any, what: str) -> None:
    for name in PUBLIC:
        x, y = GETTERS[name](a), GETTERS[name](b)
        if isinstance(x, (list, tuple)):
            ctx.check(len(x) == len(y), 'state-differs', f'{what}:{name}')
            for p, q in zip(x, y):
                ctx.check(p == q, 'state-differs', f'{what}:{name}')
        else:
            ctx.check(x == y, 'state-differs', f'{what}:{name}')
    ctx.check(len(a.operations) == len(b.operations), 'state-differs', f'{what}:operations')


def h_ctor_equiv(ctx: Any, n: int, form: str = '') -> None:
    C.native_hands()
    C.set_deck_order('identity')
    S = ctx.int('S', 1, 10 ** 5)
    sb = ctx.int('sb', 1, 10 ** 5)
    bb = ctx.int('bb', 1, 10 ** 5)
    a = ctx.int('a', 0, 10 ** 5)
    ctx.assume(sb <= bb)
    base = dict(n=n, min_bet=bb)
    ref = C.make_state('NT', dict(base, stacks=(S,) * n, blinds=(sb, bb) + (0,) * (n - 2),
                                  antes=(a,) * n))
    forms = {
        'stacks-number': dict(base, stacks=S, blinds=(sb, bb), antes=(a,) * n),
        'stacks-list': dict(base, stacks=[S] * n, blinds=[sb, bb], antes=[a] * n),
        'stacks-map': dict(base, stacks={i: S for i in range(n)}, blinds={0: sb, 1: bb}, antes=a),
        'neg-keys': dict(base, stacks={i - n: S for i in range(n)}, blinds={-n: sb, 1 - n: bb}, antes=a),
    }
    for what, cfg in forms.items():
        if form in ('', what):
            _same_state(ctx, ref, C.make_state('NT', cfg), what)
    if form not in ('', 'special-antes'):
        ctx.cover('done')
        return
    # big-blind ante and button ante
    r1 = C.make_state('NT', dict(base, stacks=S, blinds=(sb, bb), antes=(0, a) + (0,) * (n - 2),
                                 ante_trimming_status=False))
    _same_state(ctx, r1, C.make_state('NT', dict(base, stacks=S, blinds=(sb, bb), antes={1: a},
                                                 ante_trimming_status=False)), 'bb-ante')
    r2 = C.make_state('NT', dict(base, stacks=S, blinds=(sb, bb), antes=(0,) * (n - 1) + (a,),
                                 ante_trimming_status=False))
    _same_state(ctx, r2, C.make_state('NT', dict(base, stacks=S, blinds=(sb, bb), antes={-1: a},
                                                 ante_trimming_status=False)), 'button-ante')
    ctx.cover('done')


def h_validation(ctx: Any, n: int) -> None:
    """rejected at construction <=> one of the documented conditions."""
    from pokerkit.hands import StandardHighHand
    from pokerkit.state import BettingStructure, Opening, State, Street
    from pokerkit.utilities import Deck
    C.native_hands()
    C.set_deck_order('identity')
    antes = tuple(ctx.int(f'a{i}', -2, 3) for i in range(n))
    blinds = tuple(ctx.int(f'b{i}', -3, 3) for i in range(n))
    stacks = tuple(ctx.int(f's{i}', -1, 5) for i in range(n))
    bring = ctx.int('bring', -1, 3)
    pc = n if not ctx.flag('one_player') else 1
    streets = (Street(False, (False, True), 0, False, Opening.POSITION, 2, None),
               Street(True, (), 3, False, Opening.POSITION, 2, None))
    neg_ante = any(x < 0 for x in antes[:pc]) or bring < 0
    nothing = (not any(x != 0 for x in antes[:pc]) and not any(x != 0 for x in blinds[:pc])
               and bring == 0)
    bad_stack = any(x <= 0 for x in stacks[:pc])
    both = any(x != 0 for x in blinds[:pc]) and bring != 0
    expect_reject = neg_ante or nothing or bad_stack or both or bring >= 2 or pc < 2
    try:
        State((), Deck.STANDARD, (StandardHighHand,), streets, BettingStructure.NO_LIMIT, True,
              antes, blinds, bring, stacks, pc)
        rejected = False
    except ValueError:
        rejected = True
    except Exception as e:
        C.reraise_control(e)
        if expect_reject:
            rejected = True      # rejected, though not by the documented exception
            ctx.cover('rejected-by-other-exception')
        else:
            ctx.fail('constructor-crashed', f'{type(e).__name__}: {e}')
    if expect_reject and not rejected:
        ctx.fail('invalid-layout-accepted', lambda: f'antes={antes} blinds={blinds} bring={bring} stacks={stacks} n={pc}')
    ctx.check(expect_reject or not rejected, 'valid-layout-rejected',
              lambda: f'antes={antes} blinds={blinds} bring={bring} stacks={stacks} n={pc}')
    ctx.cover('rejected' if rejected else 'accepted')


def h_cards(ctx: Any, k: int) -> None:
    from pokerkit.utilities import Card, Rank, Suit
    RANKS, SUITS = list(Rank), list(Suit)
    cards = [Card(RANKS[ctx.choice(f'r{i}', len(RANKS))], SUITS[ctx.choice(f's{i}', len(SUITS))])
             for i in range(k)]
    text = ''.join(repr(c) for c in cards)
    ctx.check(tuple(Card.parse(text)) == tuple(cards), 'repr-parse')
    sep = [' ', ',', ', ', '\t'][ctx.choice('sep', 4)]
    ctx.check(tuple(Card.parse(sep.join(repr(c) for c in cards))) == tuple(cards), 'separators')
    ctx.check(tuple(Card.parse(*[repr(c) for c in cards])) == tuple(cards), 'varargs')
    ten = text.replace('T', '10')
    ctx.check(tuple(Card.parse(ten)) == tuple(cards), 'ten-form')
    for form in (text, tuple(cards), list(cards), iter(list(cards))):
        ctx.check(Card.clean(form) == tuple(cards), 'clean-forms')
    if k == 1:
        ctx.check(Card.clean(cards[0]) == (cards[0],), 'clean-single')
    for c in cards:
        ctx.check(bool(c) == (c.rank != Rank.UNKNOWN and c.suit != Suit.UNKNOWN), 'unknown-status')
    ctx.cover('done')


def h_deal_forms(ctx: Any) -> None:
    """the same card given to deal_hole / burn_card / deal_board as a card object, a tuple, a list or text."""
    import warnings
    from pokerkit.state import Automation
    from pokerkit.utilities import Card, Rank, Suit
    C.native_hands()
    C.set_deck_order('identity')
    warnings.simplefilter('ignore')
    RANKS, SUITS = list(Rank), list(Suit)
    card = Card(RANKS[ctx.choice('r', len(RANKS))], SUITS[ctx.choice('s', len(SUITS))])
    form = ctx.choice('form', 4)
    arg = [card, (card,), [card], repr(card)][form]
    autos = tuple(a for a in Automation if a not in (Automation.HOLE_DEALING, Automation.BOARD_DEALING,
                                                     Automation.CARD_BURNING))

    def fresh() -> Any:
        return C.make_state('NT', dict(n=2, stacks=(50, 50), blinds=(1, 2), min_bet=2, automations=autos))
    ref, st = fresh(), fresh()
    ref.deal_hole((card,))
    C.call(ctx, st.deal_hole, arg)
    ctx.check(st.hole_cards == ref.hole_cards and list(st.deck_cards) == list(ref.deck_cards), 'deal_hole-forms-differ',
              lambda: f'{arg!r}: {st.hole_cards} vs {ref.hole_cards}')
    for s_ in (ref, st):
        while s_.can_deal_hole():
            s_.deal_hole()
        s_.check_or_call()
        s_.check_or_call()
    ref.burn_card((card,))
    C.call(ctx, st.burn_card, arg)
    ctx.check(st.burn_cards == ref.burn_cards and list(st.deck_cards) == list(ref.deck_cards), 'burn_card-forms-differ',
              lambda: f'{arg!r}: {st.burn_cards} vs {ref.burn_cards}')
    ref.deal_board((card,))
    C.call(ctx, st.deal_board, arg)
    ctx.check(st.board_cards == ref.board_cards and list(st.deck_cards) == list(ref.deck_cards), 'deal_board-forms-differ',
              lambda: f'{arg!r}: {st.board_cards} vs {ref.board_cards}')
    ctx.cover('done')


def h_hand_forms(ctx: Any) -> None:
    """hole/board cards given to the hand types as text, tuple, list or one-shot iterator denote the same cards."""
    import inspect
    import pokerkit.hands as H
    from pokerkit.utilities import Card
    classes = [c for n, c in sorted(vars(H).items()) if inspect.isclass(c) and issubclass(c, H.Hand)
               and hasattr(c, 'low') and hasattr(c, 'lookup')]
    cls = classes[ctx.choice('cls', len(classes))]
    samples = [('AsKs', '2c3dQsJsTs'), ('As2d3h4c', '5c6d7h8sKc'), ('Ac2d3h4s', ''), ('KsQd', 'KhQc2s'), ('Js', 'Qs'),
               ('7c5d4h3s2c', '')]
    hole_t, board_t = samples[ctx.choice('sample', len(samples))]
    forms = [lambda t: t, lambda t: tuple(Card.parse(t)), lambda t: list(Card.parse(t)), lambda t: Card.parse(t),
             lambda t: (c for c in tuple(Card.parse(t))), lambda t: filter(None, tuple(Card.parse(t)))]
    fh = ctx.choice('hole_form', len(forms))
    fb = ctx.choice('board_form', len(forms))
    ref = cls.from_game_or_none(hole_t, board_t)
    got = cls.from_game_or_none(forms[fh](hole_t), forms[fb](board_t))
    ctx.check((ref is None) == (got is None), 'forms-differ', lambda: f'{cls.__name__} {hole_t} {board_t}: {ref} vs {got}')
    if ref is not None:
        ctx.check(ref == got and sorted(map(repr, ref.cards)) == sorted(map(repr, got.cards)), 'forms-differ',
                  lambda: f'{cls.__name__} {hole_t} {board_t}: {ref!r} vs {got!r}')
        ctx.cover('hand')
    ctx.cover('done')


def h_rawtext(ctx: Any, length: int) -> None:
    """arbitrary raw text: rejected with ValueError or equal to the card codes it spells."""
    from pokerkit.utilities import Card, Rank, Suit
    chars = [chr(32 + ctx.choice(f'c{i}', 95)) for i in range(length)]
    text = ''.join(chars)
    rset = {str(r.value) for r in Rank}
    sset = {str(s.value) for s in Suit}
    # independent reading: "10" means T, commas vanish, whitespace separates chunks of even length
    t = text.replace('10', 'T').replace(',', '')
    exp: list | None = []
    for chunk in t.split():
        if len(chunk) % 2:
            exp = None
            break
        for i in range(0, len(chunk), 2):
            if chunk[i] in rset and chunk[i + 1] in sset:
                exp.append((chunk[i], chunk[i + 1]))
            else:
                exp = None
                break
        if exp is None:
            break
    try:
        got = [(str(c.rank.value), str(c.suit.value)) for c in Card.parse(text)]
        ctx.check(exp is not None and got == exp, 'parsed-differently', lambda: f'{text!r} {got} {exp}')
        ctx.cover('parsed')
    except ValueError:
        ctx.check(exp is None, 'valid-text-rejected', lambda: f'{text!r}')
        ctx.cover('rejected')


def h_divmod(ctx: Any) -> None:
    from pokerkit.utilities import divmod as pk_divmod
    a = ctx.int('a', 0, 10 ** 9)
    d = ctx.choice('d', 9) + 1
    q, r = pk_divmod(a, d)
    ctx.check(q * d + r == a, 'parts-do-not-add-up')
    ctx.check(0 <= r and r < d, 'remainder-range')
    ctx.check(q >= 0, 'negative-quotient')
    ctx.cover('done')


GRID = [100, 3]      # numerators < GRID[0], denominators 10^e with e < GRID[1] (thorough: 400, 4)


def _number(ctx: Any, tag: str) -> Any:
    """a chip amount of one of the numeric types pokerkit documents (int, float, Fraction, Decimal)."""
    from decimal import Decimal
    from fractions import Fraction
    kind = ctx.choice(f'{tag}_type', 4)
    p = ctx.choice(f'{tag}_p', GRID[0])
    e = ctx.choice(f'{tag}_e', GRID[1]) if kind else 0
    if kind == 0:
        return p
    if kind == 1:
        return Fraction(p, 10 ** e)
    if kind == 2:
        return Decimal(p) / Decimal(10 ** e)
    return p / 10 ** e


def h_divmod_types(ctx: Any, grid: Any = None) -> None:
    if grid:
        GRID[:] = grid
    from pokerkit.utilities import divmod as pk_divmod
    a = _number(ctx, 'a')
    d = ctx.choice('d', 9) + 1
    q, r = pk_divmod(a, d)
    ctx.check(q * d + r == a, 'parts-do-not-add-up', lambda: f'divmod({a!r}, {d}) = {q!r}, {r!r}')
    ctx.check(type(q) is type(a) or isinstance(a, int), 'quotient-type')
    ctx.cover('done')


def h_clean_types(ctx: Any, count: int, grid: Any = None) -> None:
    """a single number of every numeric type means that number for every player; the same values as list, tuple,
    mapping give the same layout; and a State built from the scalar equals the one built from the explicit list."""
    from pokerkit.utilities import clean_values
    if grid:
        GRID[:] = grid
    C.native_hands()
    C.set_deck_order('identity')
    v = _number(ctx, 'v')
    exp = (v,) * count
    form = ctx.choice('form', 4)
    arg = [v, [v] * count, (v,) * count, {i: v for i in range(count)}][form]
    try:
        r = clean_values(arg, count)
    except Exception as e:
        C.reraise_control(e)
        ctx.fail('numeric-form-rejected', f'clean_values({arg!r}, {count}): {type(e).__name__}: {e}')
    ctx.check(isinstance(r, tuple) and len(r) == count and all(x == y and type(x) is type(y) for x, y in zip(r, exp)),
              'numeric-form', lambda: f'clean_values({arg!r}, {count}) = {r!r}')
    if v > 0 and ctx.flag('state'):
        big = v * 100
        cfg = dict(n=count, min_bet=2 * v, blinds=(v, 2 * v), antes=0)
        ref = C.make_state('NT', dict(cfg, stacks=(big,) * count))
        alt = [big, [big] * count, (big,) * count, {i: big for i in range(count)}][form]
        try:
            other = C.make_state('NT', dict(cfg, stacks=alt))
        except Exception as e:
            C.reraise_control(e)
            ctx.fail('numeric-form-rejected-by-the-constructor', f'starting stacks {alt!r}: {type(e).__name__}: {e}')
        _same_state(ctx, ref, other, f'stacks as {type(alt).__name__} of {type(big).__name__}')
        ctx.cover('state')
    ctx.cover('done')


def h_rake(ctx: Any) -> None:
    from math import inf
    from pokerkit.utilities import rake
    amount = ctx.int('amount', 0, 10 ** 6)
    p = [0, 0.5, 1, 0.25, 0.05, 0.1][ctx.choice('p', 6)]
    capped = ctx.flag('capped')
    cap = ctx.int('cap', 0, 10 ** 6) if capped else inf
    raked, unraked = rake(amount, percentage=p, cap=cap)
    ctx.check(raked + unraked == amount, 'parts-do-not-add-up')
    ctx.check(raked >= 0 and unraked >= 0, 'negative-part')
    ctx.check(raked <= amount, 'raked-more-than-amount')
    if capped:
        ctx.check(raked <= cap, 'cap-exceeded')
    ctx.cover('done')


def h_rake_noflop(ctx: Any) -> None:
    from pokerkit.utilities import rake
    C.native_hands()
    C.set_deck_order('identity')
    amount = ctx.int('amount', 0, 10 ** 6)
    st = C.make_state('NT', dict(n=2, stacks=(100, 100), blinds=(1, 2), min_bet=2))
    r, u = rake(amount, st, percentage=0.1, no_flop_no_drop=True)
    ctx.check(r == 0 and u == amount, 'no-flop-no-drop')
    st.check_or_call()
    st.check_or_call()
    r, u = rake(amount, st, percentage=0.1, no_flop_no_drop=True)
    ctx.check(r + u == amount and r >= 0 and u >= 0, 'parts-do-not-add-up')
    try:
        rake(amount, None, percentage=0.1, no_flop_no_drop=True)
        ctx.fail('no-state-accepted')
    except ValueError:
        pass
    for bad in (-0.5, 1.5):
        try:
            rake(amount, percentage=bad)
            ctx.fail('bad-percentage-accepted')
        except ValueError:
            pass
    ctx.cover('done')


def jobs(tier: str, seed: int) -> list[dict]:
    out = []
    B = 280
    for n in (2, 3, 4):
        out.append(dict(name=f'clean/number/n{n}', fn='h_clean_number', params=dict(count=n),
                        budget_s=B, must_cover=['done']))
        for L in range(0, n + 2):
            out.append(dict(name=f'clean/seq/n{n}/len{L}', fn='h_clean_seq',
                            params=dict(count=n, length=L), budget_s=B, must_cover=['done']))
        out.append(dict(name=f'clean/map/n{n}', fn='h_clean_map', params=dict(count=n),
                        budget_s=B, must_cover=['done']))
        if n <= 3:
            for form in ('stacks-number', 'stacks-list', 'stacks-map', 'neg-keys', 'special-antes'):
                out.append(dict(name=f'ctor-equiv/n{n}/{form}', fn='h_ctor_equiv',
                                params=dict(n=n, form=form), budget_s=B, must_cover=['done']))
    for n in (2, 3):
        out.append(dict(name=f'validation/n{n}', fn='h_validation', params=dict(n=n),
                        budget_s=B, must_cover=['rejected', 'accepted']))
    for k in (1, 2):
        out.append(dict(name=f'cards/k{k}', fn='h_cards', params=dict(k=k), budget_s=B,
                        must_cover=['done']))
    for L in (0, 1, 2):
        out.append(dict(name=f'rawtext/len{L}', fn='h_rawtext', params=dict(length=L), budget_s=B,
                        must_cover=['rejected'] if L == 1 else ['parsed']))
    out.append(dict(name='hand-forms', fn='h_hand_forms', traced=False, params={}, budget_s=B, must_cover=['done', 'hand']))
    out.append(dict(name='deal-forms', fn='h_deal_forms', traced=False, params={}, budget_s=B, must_cover=['done']))
    out.append(dict(name='divmod', fn='h_divmod', params={}, budget_s=B, must_cover=['done']))
    grid = None if tier == 'quick' else [400, 4]
    out.append(dict(name='divmod/numeric-types', fn='h_divmod_types', traced=False, params=dict(grid=grid),
                    budget_s=B if tier == 'quick' else 1500, must_cover=['done']))
    for n in ((2, 3) if tier == 'quick' else (2, 3, 4, 6)):
        out.append(dict(name=f'clean/numeric-types/n{n}', fn='h_clean_types', traced=False, params=dict(count=n, grid=grid),
                        budget_s=B if tier == 'quick' else 1500, must_cover=['done', 'state']))
    if tier == 'thorough':
        for n in (5, 6):
            out.append(dict(name=f'clean/number/n{n}', fn='h_clean_number', params=dict(count=n), budget_s=B, must_cover=['done']))
            out.append(dict(name=f'clean/map/n{n}', fn='h_clean_map', params=dict(count=n), budget_s=B, must_cover=['done']))
            for L in (0, n - 1, n, n + 1):
                out.append(dict(name=f'clean/seq/n{n}/len{L}', fn='h_clean_seq', params=dict(count=n, length=L), budget_s=B,
                                must_cover=['done']))
        for form in ('stacks-number', 'stacks-list', 'stacks-map', 'neg-keys', 'special-antes'):
            out.append(dict(name=f'ctor-equiv/n4/{form}', fn='h_ctor_equiv', params=dict(n=4, form=form), budget_s=900,
                            must_cover=['done']))
        out.append(dict(name='validation/n4', fn='h_validation', params=dict(n=4), budget_s=900, must_cover=['rejected', 'accepted']))
        out.append(dict(name='rawtext/len3', fn='h_rawtext', params=dict(length=3), budget_s=1500, must_cover=['parsed']))
    out.append(dict(name='rake/smt', kind='native', fn='smt_rake', params={}, budget_s=B))
    out.append(dict(name='rake/translator-validation', kind='native', fn='smt_translator_validation',
                    params={}, budget_s=60))
    return out


def smt_rake(budget_s: float = 250, eb: int = 5, sb: int = 11) -> dict:
    """E2: utilities.rake translated from its CURRENT source.  amount: Int in [0, 2**53) with an
    exact binary64 shadow; percentage: any binary64; cap = inf or an Int.  Two obligation kinds per
    path: (A, QF_FP) the rounded product lies in [0, amount]; (B, LIA + lemma A) parts add up,
    are non-negative, respect the cap, and only a bad percentage raises."""
    import time
    import z3
    from engine import py2smt
    from engine.py2smt import RNE, Interp, Unsupported, V
    from pokerkit.utilities import rake
    F64 = z3.FPSort(eb, sb)      # obligation (A) is discharged at this width only (see META)
    py2smt.set_fp_sort(F64)
    t0 = time.time()
    queries, samples = 0, []
    res = 'confirmed'

    def check(s: Any, desc: str) -> str:
        nonlocal queries, res
        s.set('timeout', int(budget_s * 1000))
        t = time.time()
        r_ = str(s.check())
        queries += 1
        samples.append({'query': desc, 'result': r_, 'solver_s': round(time.time() - t, 2)})
        return r_

    for capkind in ('inf', 'int'):
        for nfnd in (False, True):
            amount = z3.Int('amount')
            af = z3.FP('amount_fp', F64)
            p = z3.FP('percentage', F64)
            cap = z3.Int('cap')
            flop = z3.Bool('some_board_card')
            args = {'amount': V('int', amount, af), 'state': V('state', flop),
                    'percentage': V('fp', p), 'cap': V('inf') if capkind == 'inf' else V('int', cap),
                    'no_flop_no_drop': V('bool', z3.BoolVal(nfnd))}
            it = Interp(rake, args)
            it.shadow = True
            try:
                paths = it.run()
            except Unsupported as e:
                return dict(status='inconclusive', reason=f'translator: {e}', queries=queries)
            fp_dom = [z3.fpEQ(af, z3.fpRoundToIntegral(z3.RTZ(), af)), z3.fpLEQ(z3.FPVal(0.0, F64), af),
                      z3.fpLT(af, z3.FPVal(float(2 ** sb), F64))]
            in_range = z3.And(z3.fpLEQ(z3.FPVal(0.0, F64), p), z3.fpLEQ(p, z3.FPVal(1.0, F64)))
            # (A) per rounding site, pure floating point
            for ri, rf in it.rounds:
                s = z3.Solver()
                s.add(*fp_dom)
                s.add(in_range)
                s.add(z3.Not(z3.And(z3.fpLEQ(z3.FPVal(0.0, F64), rf), z3.fpLEQ(rf, af))))
                r_ = check(s, f'rake[{capkind},nfnd={nfnd}] (A/QF_FP): round(amount*percentage) outside [0, amount]')
                if r_ == 'sat':
                    m = s.model()
                    return dict(status='harness-error', queries=queries, sample_queries=samples,
                                reason=f'FP model needs replay: amount={m.eval(af)} p={m.eval(p)}')
                if r_ != 'unsat':
                    res = 'inconclusive'
            lemma = [z3.And(ri >= 0, ri <= amount) for ri, _ in it.rounds]
            dom = [amount >= 0, amount < 2 ** 53, cap >= 0]
            for pc, kind, val in paths:
                s = z3.Solver()
                s.add(*dom)
                s.add(pc)
                if kind == 'raise':
                    s.add(in_range)
                    desc = f'rake[{capkind},nfnd={nfnd}] (B): raises although 0<=percentage<=1'
                else:
                    r, u = val.term
                    if r.kind != 'int' or u.kind != 'int':
                        return dict(status='inconclusive', reason='non-int parts', queries=queries)
                    s.add(z3.Implies(in_range, z3.And(*lemma)) if lemma else z3.BoolVal(True))
                    bad = z3.Or(r.term + u.term != amount, r.term < 0, u.term < 0, z3.Not(in_range))
                    if capkind == 'int':
                        bad = z3.Or(bad, r.term > cap)
                    s.add(bad)
                    desc = f'rake[{capkind},nfnd={nfnd}] (B): parts do not add up / negative / over cap / bad percentage accepted'
                r_ = check(s, desc)
                if r_ == 'sat':
                    m = s.model()
                    av = m.eval(amount, model_completion=True).as_long()
                    cv = m.eval(cap, model_completion=True).as_long()
                    pv = _fp_to_float(m.eval(p, model_completion=True))
                    rep = _replay_rake(av, pv, cv if capkind == 'int' else None, nfnd)
                    if not rep['reproduced'] and it.rounds and av > 0:
                        # the LIA part only knows 0 <= round(...) <= amount: realise the rounded value
                        # the model chose by a percentage that produces it
                        rv = m.eval(it.rounds[0][0], model_completion=True).as_long()
                        rep = _replay_rake(av, min(1.0, max(0.0, rv / av)), cv if capkind == 'int' else None, nfnd)
                    if rep['reproduced']:
                        return dict(status='violation', kind='rake', detail=f'{desc}: {rep}', queries=queries,
                                    sample_queries=samples, replay={'values': rep['inputs'], 'outcome': 'viol', 'trace': rep})
                    return dict(status='harness-error', queries=queries, sample_queries=samples,
                                reason=f'model does not reproduce on the real rake: {desc} {rep}')
                if r_ != 'unsat':
                    res = 'inconclusive'
    return dict(status=res, reason='all unsat' if res == 'confirmed' else 'unknown', queries=queries,
                solver_s=round(time.time() - t0, 2), sample_queries=samples)


def _fp_to_float(v: Any) -> float:
    import z3
    if z3.is_fp(v) and hasattr(v, 'as_string'):
        try:
            sign = -1.0 if v.sign() else 1.0
            if v.isInf():
                return sign * float('inf')
            if v.isNaN():
                return float('nan')
            if v.isZero():
                return 0.0 * sign
            frac = v.significand_as_long()
            e = v.exponent_as_long(False)
            sb = v.sbits() - 1
            val = (1 + frac / (2 ** sb)) * (2.0 ** e) if not v.isSubnormal() else (frac / (2 ** sb)) * 2.0 ** (e + 1)
            return sign * val
        except Exception:
            pass
    return 0.5


def _replay_rake(amount: int, percentage: float, cap: Any, nfnd: bool) -> dict:
    from math import inf
    from pokerkit.utilities import rake

    class _S:
        board_cards = [[1]]
    inputs = {'amount': amount, 'percentage': percentage, 'cap': cap, 'no_flop_no_drop': nfnd}
    try:
        r, u = rake(amount, _S() if nfnd else None, percentage=percentage, cap=inf if cap is None else cap,
                    no_flop_no_drop=nfnd)
    except ValueError as e:
        return {'reproduced': 0 <= percentage <= 1, 'inputs': inputs, 'raised': str(e)}
    bad = (r + u != amount) or r < 0 or u < 0 or (cap is not None and r > cap) or not (0 <= percentage <= 1)
    return {'reproduced': bool(bad), 'inputs': inputs, 'parts': [r, u]}


def smt_translator_validation() -> dict:
    """push concrete inputs through the real rake and through the formula (Serval-style)."""
    import random
    import z3
    from math import inf
    from engine.py2smt import F64, Interp, V
    from pokerkit.utilities import rake
    rnd = random.Random(7)
    n = 0
    for _ in range(60):
        a = rnd.choice([0, 1, 2, 3, 7, 10, 99, 100, 101, 12345, 2 ** 40 + 1, rnd.randrange(10 ** 6)])
        p = rnd.choice([0.0, 1.0, 0.5, 0.05, 0.1, 0.025, 0.3333, rnd.random()])
        cap = rnd.choice([None, 0, 1, 3, 50, 10 ** 9])
        real = rake(a, percentage=p, cap=inf if cap is None else cap)
        args = {'amount': V('int', z3.IntVal(a)), 'state': V('none'), 'percentage': V('fp', z3.FPVal(p, F64)),
                'cap': V('inf') if cap is None else V('int', z3.IntVal(cap)),
                'no_flop_no_drop': V('bool', z3.BoolVal(False))}
        got = None
        for pc, kind, val in Interp(rake, args).run():
            if z3.is_true(z3.simplify(pc)):
                if kind == 'return':
                    got = tuple(z3.simplify(x.term).as_long() for x in val.term)
        if got != tuple(real):
            return dict(status='harness-error', reason=f'translator disagrees with rake({a},{p},{cap}): {got} vs {real}')
        n += 1
    return dict(status='confirmed', reason=f'{n} concrete inputs agree', native_replays=n)
