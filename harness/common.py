"""Shared harness vocabulary: stubs on the pokerkit side, state construction
from a config vector, the after-every-operation monitor, the parametric
evaluator and the independent side-pot oracle.  Everything here *calls* the
real pokerkit from /repo; nothing re-implements it except the oracles, which
are written from the property statements."""
from __future__ import annotations

import inspect
import os
import sys
import warnings
from typing import Any, Callable

REPO = os.environ.get('VERIF_REPO', '/repo')
if REPO not in sys.path:
    sys.path.insert(0, REPO)

import pokerkit  # noqa: E402
import pokerkit.state as pk_state  # noqa: E402
import pokerkit.utilities as pk_util  # noqa: E402
import pokerkit.games as pk_games  # noqa: E402
from pokerkit.state import Automation, Mode, State  # noqa: E402

from crosshair.tracers import NoTracing  # noqa: E402
from engine.symex import reraise_control  # noqa: E402

# --------------------------------------------------------------------------
# deck order stub: ``random.shuffle`` forks per randrange under CrossHair.
# The deck order is a concrete parameter of every harness.

_DECK_MODE = ['identity']


def _stub_shuffle(x: Any) -> None:
    for mode in _DECK_MODE[0].split('+'):       # 'stride7+rot13': one step after the other
        _stub_shuffle_1(x, mode)


def _stub_shuffle_1(x: Any, mode: str) -> None:
    with NoTracing():
        if mode == 'identity':
            return
        items = list(x)
        if mode == 'reversed':
            items.reverse()
        elif mode.startswith('rot'):
            k = int(mode[3:]) % max(1, len(items))
            items = items[k:] + items[:k]
        elif mode.startswith('stride'):
            # a fixed "riffle": take every k-th card (k coprime with len)
            k = int(mode[6:])
            n = len(items)
            while n and __import__('math').gcd(k, n) != 1:
                k += 1
            items = [items[(i * k) % n] for i in range(n)]
        if hasattr(x, 'clear'):
            x.clear()
            x.extend(items)
        else:
            x[:] = items


def set_deck_order(mode: str) -> None:
    _DECK_MODE[0] = mode


pk_state.shuffle = _stub_shuffle
pk_util.shuffle = _stub_shuffle

ALL_AUTOMATIONS = tuple(Automation)

# --------------------------------------------------------------------------
# monitor: run a callback after every logged operation (incl. automated ones)

_MONITOR: list[Callable[[State, Any], None] | None] = [None]
_orig_update = State._update
OPS_EXECUTED = [0]      # logged operations executed by the real code in this process (evidence: transitions)


def _monitored_update(self: State, operation: Any = None) -> None:
    _orig_update(self, operation)
    if operation is not None:
        OPS_EXECUTED[0] += 1
    cb = _MONITOR[0]
    if cb is not None and operation is not None:
        cb(self, operation)


State._update = _monitored_update  # type: ignore


def set_monitor(cb: Callable[[State, Any], None] | None) -> None:
    _MONITOR[0] = cb


# --------------------------------------------------------------------------
# variants (introspected from the current source)

def variant_classes() -> dict[str, type]:
    out = {}
    for name, obj in vars(pk_games).items():
        if (inspect.isclass(obj) and issubclass(obj, pk_games.Poker)
                and not inspect.isabstract(obj) and 'create_state' in vars(obj) or
                (inspect.isclass(obj) and issubclass(obj, pk_games.Poker)
                 and hasattr(obj, 'create_state') and hasattr(obj, 'deck')
                 and hasattr(obj, 'hand_types') and hasattr(obj, 'betting_structure'))):
            out[name] = obj
    return out


VARIANTS = variant_classes()

# short codes used in job names
CODES = {
    'FT': 'FixedLimitTexasHoldem', 'NT': 'NoLimitTexasHoldem',
    'NS': 'NoLimitShortDeckHoldem', 'PO': 'PotLimitOmahaHoldem',
    'FO8': 'FixedLimitOmahaHoldemHighLowSplitEightOrBetter',
    'F7S': 'FixedLimitSevenCardStud',
    'F7S8': 'FixedLimitSevenCardStudHighLowSplitEightOrBetter',
    'FR': 'FixedLimitRazz', 'N2L1D': 'NoLimitDeuceToSevenLowballSingleDraw',
    'F2L3D': 'FixedLimitDeuceToSevenLowballTripleDraw', 'FB': 'FixedLimitBadugi',
    'NR': 'NoLimitRoyalHoldem',
}


def make_game(code: str, cfg: dict[str, Any]) -> Any:
    """Instantiate the real game class from a config dict; parameter names are
    taken from the constructor signature of the current source."""
    cls = VARIANTS[CODES.get(code, code)]
    sig = inspect.signature(cls.__init__)
    kwargs: dict[str, Any] = {}
    for name, p in sig.parameters.items():
        if name == 'self':
            continue
        if name == 'automations':
            kwargs[name] = cfg.get('automations', ALL_AUTOMATIONS)
        elif name == 'ante_trimming_status':
            kwargs[name] = cfg.get('ante_trimming_status', True)
        elif name == 'raw_antes':
            kwargs[name] = cfg.get('antes', 0)
        elif name == 'raw_blinds_or_straddles':
            kwargs[name] = cfg['blinds']
        elif name == 'bring_in':
            kwargs[name] = cfg['bring_in']
        elif name == 'min_bet':
            kwargs[name] = cfg['min_bet']
        elif name == 'small_bet':
            kwargs[name] = cfg['small_bet']
        elif name == 'big_bet':
            kwargs[name] = cfg['big_bet']
        elif name == 'mode':
            kwargs[name] = cfg.get('mode', Mode.TOURNAMENT)
        elif name == 'starting_board_count':
            kwargs[name] = cfg.get('starting_board_count', 1)
        elif name == 'divmod':
            if 'divmod' in cfg:
                kwargs[name] = cfg['divmod']
        elif name == 'rake':
            if 'rake' in cfg:
                kwargs[name] = cfg['rake']
        elif p.default is inspect.Parameter.empty:
            raise KeyError(f'unknown constructor parameter {name} of {cls.__name__}')
    game = cls(**kwargs)
    if 'hand_types' in cfg:
        game.hand_types = cfg['hand_types']
    if 'streets' in cfg:
        game.streets = cfg['streets']
    if 'deck' in cfg:
        game.deck = cfg['deck']
    return game


def make_state(code: str, cfg: dict[str, Any]) -> State:
    """Create a state through the variant's PUBLIC ``create_state`` classmethod (parameter names read
    from its current signature); only harnesses that override hand types / streets / deck go through the
    game object instead."""
    if any(k in cfg for k in ('hand_types', 'streets', 'deck')):
        game = make_game(code, cfg)
        return game(cfg['stacks'], cfg['n'])
    cls = VARIANTS[CODES.get(code, code)]
    sig = inspect.signature(cls.create_state)
    args: list = []
    kwargs: dict[str, Any] = {}
    for name, p in sig.parameters.items():
        if name == 'automations':
            v = cfg.get('automations', ALL_AUTOMATIONS)
        elif name == 'ante_trimming_status':
            v = cfg.get('ante_trimming_status', True)
        elif name == 'raw_antes':
            v = cfg.get('antes', 0)
        elif name == 'raw_blinds_or_straddles':
            v = cfg['blinds']
        elif name == 'bring_in':
            v = cfg['bring_in']
        elif name == 'min_bet':
            v = cfg['min_bet']
        elif name == 'small_bet':
            v = cfg['small_bet']
        elif name == 'big_bet':
            v = cfg['big_bet']
        elif name == 'raw_starting_stacks':
            v = cfg['stacks']
        elif name == 'player_count':
            v = cfg['n']
        elif name == 'mode':
            kwargs[name] = cfg.get('mode', Mode.TOURNAMENT)
            continue
        elif name == 'starting_board_count':
            kwargs[name] = cfg.get('starting_board_count', 1)
            continue
        elif name in ('divmod', 'rake'):
            if name in cfg:
                kwargs[name] = cfg[name]
            continue
        elif p.default is inspect.Parameter.empty:
            raise KeyError(f'unknown create_state parameter {name} of {cls.__name__}')
        else:
            continue
        args.append(v)
    return cls.create_state(*args, **kwargs)


def is_stud(code: str) -> bool:
    return code in ('F7S', 'F7S8', 'FR')


def uses_small_big(code: str) -> bool:
    cls = VARIANTS[CODES.get(code, code)]
    return 'small_bet' in inspect.signature(cls.__init__).parameters


# --------------------------------------------------------------------------
# conservation monitor (C01)

def pots_of(state: State) -> list:
    return list(state.pots)


def check_conservation(ctx: Any, state: State, where: Any = '') -> None:
    total = sum(state.starting_stacks)
    pots = pots_of(state)
    pot_total = 0
    conds = []
    for p in pots:
        conds.append(p.raked_amount >= 0)
        conds.append(p.unraked_amount >= 0)
        pot_total += p.raked_amount + p.unraked_amount
    s = 0
    for i in state.player_indices:
        conds.append(state.stacks[i] >= 0)
        conds.append(state.bets[i] >= 0)
        s += state.stacks[i] + state.bets[i]
    conds.append(s + pot_total == total)
    if not all_true(conds):
        # slow path: find out which conjunct fails
        for p in pots:
            ctx.check(p.raked_amount >= 0, 'negative-pot', where)
            ctx.check(p.unraked_amount >= 0, 'negative-pot', where)
        for i in state.player_indices:
            ctx.check(state.stacks[i] >= 0, 'negative-stack', where)
            ctx.check(state.bets[i] >= 0, 'negative-bet', where)
        ctx.fail('chips-not-conserved', where)


def check_terminal(ctx: Any, state: State) -> None:
    ctx.check(not state.status, 'not-terminal')
    raked = 0
    conds = []
    for p in pots_of(state):
        conds.append(p.unraked_amount == 0)
        raked += p.raked_amount
    pay = 0
    for i in state.player_indices:
        conds.append(state.bets[i] == 0)
        conds.append(state.payoffs[i] == state.stacks[i] - state.starting_stacks[i])
        pay += state.payoffs[i]
    conds.append(pay == -raked)
    if not all_true(conds):
        for p in pots_of(state):
            ctx.check(p.unraked_amount == 0, 'chips-left-in-pot')
        for i in state.player_indices:
            ctx.check(state.bets[i] == 0, 'chips-left-in-front')
            ctx.check(state.payoffs[i] == state.stacks[i] - state.starting_stacks[i],
                      'payoff-not-stack-delta')
        ctx.fail('payoffs-not-zero-sum')


def conservation_monitor(ctx: Any) -> Callable[[State, Any], None]:
    def cb(state: State, op: Any) -> None:
        ctx.ops += 1
        check_conservation(ctx, state, type(op).__name__)
    return cb


# --------------------------------------------------------------------------
# calling pokerkit and classifying what comes back

REFUSALS = (ValueError, UserWarning)


def call(ctx: Any, fn: Callable, *a: Any, **kw: Any) -> Any:
    """Perform a *legal* operation: nothing may escape."""
    try:
        return fn(*a, **kw)
    except Exception as e:
        reraise_control(e)
        ctx.fail('legal-operation-raised',
                 f'{getattr(fn, "__name__", fn)}: {type(e).__name__}: {e}')


# --------------------------------------------------------------------------
# concrete hand evaluation runs natively (cards are never symbolic in the
# chip harnesses; the evaluators are the subject of C04/C05 instead)

def _wrap_from_game_native() -> None:
    import pokerkit.hands as H
    for name, cls in vars(H).items():
        if inspect.isclass(cls) and issubclass(cls, H.Hand) and 'from_game' in vars(cls):
            raw = vars(cls)['from_game']
            fn = raw.__func__
            if getattr(fn, '_verif_native', False):
                continue

            def make(fn: Any) -> Any:
                def from_game(klass: Any, hole_cards: Any, board_cards: Any = ()) -> Any:
                    with NoTracing():
                        return fn(klass, tuple(hole_cards) if not isinstance(hole_cards, str) else hole_cards,
                                  tuple(board_cards) if not isinstance(board_cards, str) else board_cards)
                from_game._verif_native = True  # type: ignore
                from_game.__wrapped__ = fn  # type: ignore
                return from_game
            setattr(cls, 'from_game', classmethod(make(fn)))


def native_hands(on: bool = True) -> None:
    if on:
        _wrap_from_game_native()


def all_true(conds: list) -> Any:
    """Conjunction of (possibly symbolic) booleans as ONE symbolic boolean, so
    that a monitor costs one solver decision instead of one per conjunct."""
    import z3
    from crosshair.libimpl.builtinslib import SymbolicBool
    with NoTracing():
        exprs = []
        for c in conds:
            var = getattr(c, 'var', None)
            if var is not None and z3.is_bool(var):
                exprs.append(var)
            elif c is True:
                continue
            elif c is False:
                return False
            else:
                raise TypeError(f'all_true: not a boolean: {type(c)}')
        if not exprs:
            return True
        return SymbolicBool(z3.And(*exprs))
