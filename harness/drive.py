"""Symbolic configurations and shapes (sequences of player decisions with
symbolic arguments) shared by the chip harnesses."""
from __future__ import annotations

from typing import Any

from harness import common as C
from pokerkit.state import Mode

MAXCHIP = 100000


def sym_rake(d: int):
    """integer rake: amount // d raked (d in {10, 20}); no_flop_no_drop off."""
    def rake(amount: Any, state: Any = None) -> tuple:
        r = amount // d
        return r, amount - r
    return rake


def cfg_standard(ctx: Any, code: str, n: int, mode: str = 'T', trim: bool = True,
                 rake_d: int = 0, boards: int = 1, ante_kind: str = 'uniform',
                 automations: Any = None, concrete_blinds: bool = False) -> dict:
    """Standard layout with symbolic amounts.  Button games: 1 <= sb <= bb,
    uniform ante a >= 0 (or BB ante / per-player antes); stud: ante >= 0,
    1 <= bring-in < small bet.  Stacks >= 1 (short stacks allowed)."""
    stacks = tuple(ctx.int(f's{i}', 1, MAXCHIP) for i in range(n))
    cfg: dict = dict(n=n, stacks=stacks,
                     mode=Mode.TOURNAMENT if mode == 'T' else Mode.CASH_GAME,
                     ante_trimming_status=trim, starting_board_count=boards)
    if automations is not None:
        cfg['automations'] = automations
    if rake_d > 0:
        cfg['rake'] = sym_rake(rake_d)
    elif rake_d < 0:
        # the library's own rake helper: 12.5 % capped at -rake_d chips
        from functools import partial
        from pokerkit.utilities import rake as pk_rake
        cfg['rake'] = partial(pk_rake, percentage=0.125, cap=-rake_d)
    if ante_kind == 'uniform':
        cfg['antes'] = ctx.int('ante', 0, MAXCHIP)
    elif ante_kind == 'none':
        cfg['antes'] = 0
    elif ante_kind == 'bb':
        cfg['antes'] = {1: ctx.int('ante', 1, MAXCHIP)}
    elif ante_kind == 'per-player':
        cfg['antes'] = tuple(ctx.int(f'ante{i}', 0, MAXCHIP) for i in range(n))
    if C.is_stud(code):
        if concrete_blinds:
            bring, small = 1, 2
        else:
            bring = ctx.int('bring', 1, MAXCHIP)
            small = ctx.int('small', 2, MAXCHIP)
            ctx.assume(bring < small)
        cfg.update(bring_in=bring, small_bet=small, big_bet=small * 2)
    else:
        if concrete_blinds:
            sb, bb = 1, 2
        else:
            sb = ctx.int('sb', 1, MAXCHIP)
            bb = ctx.int('bb', 1, MAXCHIP)
            ctx.assume(sb <= bb)
        cfg['blinds'] = (sb, bb)
        if C.uses_small_big(code):
            cfg.update(small_bet=bb, big_bet=bb * 2)
        else:
            cfg['min_bet'] = bb
    return cfg


def decide(ctx: Any, st: Any, tag: str) -> None:
    """One symbolic player decision at the current decision point."""
    if st.stander_pat_or_discarder_index is not None:
        C.call(ctx, st.stand_pat_or_discard)
        return
    assert st.actor_index is not None
    if st.can_post_bring_in():
        if ctx.flag(f'{tag}_bring'):
            C.call(ctx, st.post_bring_in)
            return
        x = ctx.int(f'{tag}_x', 0, 2 * MAXCHIP)
        if st.can_complete_bet_or_raise_to(x):
            C.call(ctx, st.complete_bet_or_raise_to, x)
            ctx.cover('raise')
        else:
            C.call(ctx, st.post_bring_in)
        return
    k = ctx.choice(f'{tag}_k', 3)
    if k == 0:
        if st.can_fold():
            C.call(ctx, st.fold)
            ctx.cover('fold')
        else:
            C.call(ctx, st.check_or_call)
    elif k == 1:
        C.call(ctx, st.check_or_call)
    else:
        x = ctx.int(f'{tag}_x', 0, 2 * MAXCHIP)
        if st.can_complete_bet_or_raise_to(x):
            C.call(ctx, st.complete_bet_or_raise_to, x)
            ctx.cover('raise')
        else:
            C.call(ctx, st.check_or_call)


def at_decision(st: Any) -> bool:
    return st.status and (st.actor_index is not None
                          or st.stander_pat_or_discarder_index is not None)


def drive(ctx: Any, st: Any, depth: int, tag: str = 'd') -> None:
    for step in range(depth):
        if not at_decision(st):
            break
        decide(ctx, st, f'{tag}{step}')


def finish(ctx: Any, st: Any, limit: int = 400) -> None:
    """Concrete policy to the end of the hand: stand pat / bring in /
    check-or-call; everything else is automated."""
    k = 0
    while at_decision(st):
        k += 1
        if k > limit:
            ctx.fail('no-termination', f'more than {limit} decisions')
        if st.stander_pat_or_discarder_index is not None:
            C.call(ctx, st.stand_pat_or_discard)
        elif st.can_post_bring_in():
            C.call(ctx, st.post_bring_in)
        else:
            C.call(ctx, st.check_or_call)
