"""Manual driver: performs every mechanical step of a hand with default
arguments as soon as it becomes available (used as the un-automated twin in
C07/C08/C09/C15) and player decisions from a script."""
from __future__ import annotations

from typing import Any, Iterator

# order in which pending mechanical steps are looked for; at most one phase is
# active at a time, the order only matters inside the dealing phase (burn first)
MECH = [
    ('post_ante', 'can_post_ante'),
    ('collect_bets', 'can_collect_bets'),
    ('post_blind_or_straddle', 'can_post_blind_or_straddle'),
    ('burn_card', 'can_burn_card'),
    ('deal_hole', 'can_deal_hole'),
    ('deal_board', 'can_deal_board'),
    ('select_runout_count', 'can_select_runout_count'),
    ('show_or_muck_hole_cards', 'can_show_or_muck_hole_cards'),
    ('kill_hand', 'can_kill_hand'),
    ('push_chips', 'can_push_chips'),
    ('pull_chips', 'can_pull_chips'),
]
AUTOMATION_OF = {
    'post_ante': 'ANTE_POSTING', 'collect_bets': 'BET_COLLECTION',
    'post_blind_or_straddle': 'BLIND_OR_STRADDLE_POSTING', 'burn_card': 'CARD_BURNING',
    'deal_hole': 'HOLE_DEALING', 'deal_board': 'BOARD_DEALING',
    'select_runout_count': 'RUNOUT_COUNT_SELECTION',
    'show_or_muck_hole_cards': 'HOLE_CARDS_SHOWING_OR_MUCKING', 'kill_hand': 'HAND_KILLING',
    'push_chips': 'CHIPS_PUSHING', 'pull_chips': 'CHIPS_PULLING',
}


def pending_mech(st: Any) -> str | None:
    for op, can in MECH:
        if getattr(st, can)():
            return op
    return None


def at_player_decision(st: Any) -> bool:
    return st.status and (st.actor_index is not None
                          or st.stander_pat_or_discarder_index is not None)


def decide(st: Any, ch: str) -> Any:
    """one scripted player decision: f c r(min raise) R(max raise) b(bring-in) s(stand pat)
    d(discard first card)."""
    if st.stander_pat_or_discarder_index is not None:
        if ch == 'd':
            i = st.stander_pat_or_discarder_index
            return st.stand_pat_or_discard((st.hole_cards[i][0],))
        return st.stand_pat_or_discard()
    if st.can_post_bring_in():
        if ch in 'rR' and st.can_complete_bet_or_raise_to():
            return st.complete_bet_or_raise_to()
        return st.post_bring_in()
    if ch == 'f' and st.can_fold():
        return st.fold()
    if ch == 'r' and st.can_complete_bet_or_raise_to():
        return st.complete_bet_or_raise_to()
    if ch == 'R' and st.can_complete_bet_or_raise_to():
        return st.complete_bet_or_raise_to(st.max_completion_betting_or_raising_to_amount)
    return st.check_or_call()


def play(st: Any, script: str, limit: int = 2000) -> Iterator[Any]:
    """perform pending mechanical steps and scripted decisions one at a time;
    yields the state before every step (so the caller sees every point)."""
    k = 0
    steps = 0
    while st.status:
        steps += 1
        if steps > limit:
            raise RuntimeError('no termination')
        yield st
        op = pending_mech(st)
        if op is not None:
            getattr(st, op)()
        elif at_player_decision(st):
            ch = script[k] if k < len(script) else 'c'
            k += 1
            decide(st, ch)
        else:
            raise RuntimeError('stuck: hand not over but nothing to do')
    yield st
