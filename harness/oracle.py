"""Independent side-pot / showdown oracle, written from the statement of C02
(not from pokerkit's code).  All arithmetic works on symbolic ints."""
from __future__ import annotations

from typing import Any


def side_pots(contrib: list, live: list, dead: Any = 0) -> list:
    """[(amount, eligible tuple)] by contribution level; adjacent pots with equal
    eligibility merged.  ``dead``: chips that belong to the first pot without
    counting towards anybody's level (untrimmed antes)."""
    n = len(contrib)
    levels: list = []
    for c in contrib:           # distinct values, ascending (forks on symbolic ties)
        dup = False
        for l in levels:
            if l == c:
                dup = True
                break
        if not dup:
            levels.append(c)
    levels.sort()
    pots: list = []
    prev = 0
    carry = dead
    for lv in levels:
        # chips between the previous level and this one, from everybody who reached it; dead money
        # (untrimmed antes) joins the first pot, which every live player contests
        amount = carry
        carry = 0
        for i in range(n):
            if contrib[i] >= lv:
                amount += lv - prev
        elig = tuple(i for i in range(n) if live[i] and contrib[i] >= lv)
        prev = lv
        if pots and pots[-1][1] == elig:
            pots[-1] = (pots[-1][0] + amount, elig)
        elif amount != 0:
            pots.append((amount, elig))
    if carry != 0:
        if pots:
            pots[0] = (pots[0][0] + carry, pots[0][1])
        else:
            pots.append((carry, tuple(i for i in range(n) if live[i])))
    return pots


def award(pots: list, n: int, n_boards: int, n_types: int, strength: Any) -> tuple:
    """strength(i, board, type) -> None or comparable (larger = stronger).
    Returns (winnings per player, [(pot, board, type, amounts tuple)])."""
    win = [0] * n
    pushes = []
    for pi, (amount, elig) in enumerate(pots):
        q, r = divmod(amount, n_boards)
        for b in range(n_boards):
            sub = q + (r if b == 0 else 0)
            types = [t for t in range(n_types)
                     if any(strength(i, b, t) is not None for i in elig)]
            if not types:
                # nobody eligible holds any hand: statement gives no rule
                raise NoRule('no eligible hand for pot')
            q2, r2 = divmod(sub, len(types))
            for t in types:
                sub2 = q2 + (r2 if t == types[0] else 0)
                if sub2 == 0:
                    continue
                best = None
                for i in elig:
                    s = strength(i, b, t)
                    if s is not None and (best is None or s > best):
                        best = s
                winners = [i for i in elig if strength(i, b, t) is not None
                           and strength(i, b, t) == best]
                q3, r3 = divmod(sub2, len(winners))
                amounts = [0] * n
                for i in winners:
                    amounts[i] = q3 + (r3 if i == winners[0] else 0)
                    win[i] += amounts[i]
                pushes.append((pi, b, t, tuple(amounts)))
    return win, pushes


class NoRule(Exception):
    pass


def contenders(pots: list, n: int, n_boards: int, n_types: int, strength: Any) -> list:
    """players holding a best hand for some pot / board / hand type they are eligible for
    (everybody else cannot win anything and is mucked or killed)."""
    out = [False] * n
    for amount, elig in pots:
        for b in range(n_boards):
            for t in range(n_types):
                best = None
                for i in elig:
                    s = strength(i, b, t)
                    if s is not None and (best is None or s > best):
                        best = s
                if best is None:
                    continue
                for i in elig:
                    s = strength(i, b, t)
                    if s is not None and s == best:
                        out[i] = True
    return out
