"""Parametric evaluator: a user-defined ``Hand`` type whose strength for every
card set is a solver variable.  ``State`` only compares hands (max, ==, <=,
is None), so quantifying over all strength assignments (monotone in the card
set, as every best-of-combinations evaluator is) covers every deal of every
game at once.  The REAL ``Hand.__init__/__eq__/__lt__/__hash__`` and the
``total_ordering`` derivatives are used; only ``lookup`` is replaced."""
from __future__ import annotations

from typing import Any

from crosshair.tracers import NoTracing
from pokerkit.hands import Hand
from pokerkit.lookups import Entry, Label


def _key(cards: Any) -> tuple:
    with NoTracing():
        return tuple(sorted(repr(c) for c in cards))


class SymLookup:
    """strength table: frozenset(card codes) -> symbolic index / validity."""

    def __init__(self, ctx: Any, tag: str, low: bool, levels: int, allow_none: bool) -> None:
        self.ctx, self.tag, self.low, self.levels, self.allow_none = ctx, tag, low, levels, allow_none
        self.idx: dict = {}      # key -> symbolic int
        self.valid: dict = {}    # key -> concrete bool (decided by a symbolic flag)
        self.order: list = []

    def _alloc(self, key: tuple) -> None:
        name = f'h{self.tag}_' + ''.join(key)
        ctx = self.ctx
        valid = True
        if self.allow_none:
            valid = not ctx.flag(name + '_none')
        # validity is monotone in the card set (a superset of a qualifying set qualifies)
        with NoTracing():
            ks = set(key)
            subs = [k for k in self.order if set(k) < ks]
            sups = [k for k in self.order if set(k) > ks]
        for k in subs:
            if self.valid[k] and not valid:
                ctx.assume(False)
        for k in sups:
            if valid and not self.valid[k]:
                ctx.assume(False)
        self.valid[key] = valid
        if valid:
            v = ctx.int(name, 0, self.levels - 1)
            # strength is monotone in the card set (more cards never hurt)
            for k in subs:
                if self.valid[k]:
                    ctx.assume((self.idx[k] >= v) if self.low else (self.idx[k] <= v))
            for k in sups:
                if self.valid[k]:
                    ctx.assume((v >= self.idx[k]) if self.low else (v <= self.idx[k]))
            self.idx[key] = v
        self.order.append(key)

    def ensure(self, cards: Any) -> tuple:
        key = _key(cards)
        if key not in self.valid:
            self._alloc(key)
        return key

    def has_entry(self, cards: Any) -> bool:
        return self.valid[self.ensure(cards)]

    def get_entry(self, cards: Any) -> Entry:
        key = self.ensure(cards)
        if not self.valid[key]:
            raise ValueError('no hand')
        return Entry(self.idx[key], Label.HIGH_CARD)

    # oracle side
    def strength(self, cards: Any) -> Any:
        """None or an int-like where LARGER = STRONGER."""
        key = self.ensure(cards)
        if not self.valid[key]:
            return None
        v = self.idx[key]
        return (self.levels - 1 - v) if self.low else v


def make_symhand(ctx: Any, tag: str, low: bool = False, levels: int = 3,
                 allow_none: bool = False) -> type:
    lk = SymLookup(ctx, tag, low, levels, allow_none)

    class SymHand(Hand):
        lookup = lk  # type: ignore
        low = lk.low

        @classmethod
        def from_game(cls, hole_cards: Any, board_cards: Any = ()) -> Hand:
            cards = tuple(hole_cards) + tuple(board_cards)
            return cls(cards)

    SymHand.__name__ = SymHand.__qualname__ = f'SymHand{tag}'
    return SymHand
