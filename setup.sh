#!/bin/sh
# Offline setup: nothing to build.  The checks run under the tooling
# interpreter python3-vt (crosshair-tool, z3-solver, cvc5 pre-installed) and
# import pokerkit (pure Python, stdlib only) straight from /repo's working tree.
set -e
cd "$(dirname "$0")"
python3-vt - <<'PY'
import sys
sys.path.insert(0, '/repo')
import crosshair, z3, pokerkit
print('setup ok: python', sys.version.split()[0], 'z3', z3.get_version_string(), 'pokerkit from', pokerkit.__file__)
PY
mkdir -p evidence
