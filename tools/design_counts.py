#!/usr/bin/env python3
"""refresh the last column of the table in DESIGN.md section 2 from evidence/*.json (obligations / explored paths+queries)."""
import json, re
p = '/verif/DESIGN.md'
s = open(p).read().split('\n')
for i, line in enumerate(s):
    m = re.match(r'^\| (C\d\d) \|', line)
    if not m or line.count('|') < 7:
        continue
    try:
        d = json.load(open(f'/verif/evidence/{m.group(1)}.json'))
    except FileNotFoundError:
        continue
    c = d['coverage']
    cells = line.split('|')
    cells[-2] = f" {c['obligations']} / {c['states']:,} ".replace(',', ' ')
    s[i] = '|'.join(cells)
open(p, 'w').write('\n'.join(s))
