#!/usr/bin/env python3
"""print obligations / paths / operations per property from evidence/*.json (for DESIGN section 2)."""
import json, glob
for f in sorted(glob.glob('/verif/evidence/C*.json')):
    d = json.load(open(f))
    c = d['coverage']
    print(d['property_id'], d['tier'], 'obligations', c.get('obligations'), 'discharged', c.get('discharged'),
          'inconclusive', c.get('inconclusive'), 'violations', c.get('violations'), 'known', c.get('known_findings_reproduced'),
          'states', c.get('states'), 'transitions', c.get('transitions'), 'wall', d.get('wall_s'))
