#!/usr/bin/env python3
"""Regenerate MANIFEST.json from the table below (single source of truth)."""
import json
from pathlib import Path

VERIF = Path(__file__).resolve().parent.parent
props = [json.loads(l) for l in (VERIF / 'properties.jsonl').read_text().splitlines() if l.strip()]

# id -> (technique, level text, level note, design ref)
CLAIMED = {}
NOT_APPLICABLE = {}
exec((VERIF / 'tools' / 'manifest_table.py').read_text())

checks = []
for p in props:
    pid = p['id']
    if pid in CLAIMED:
        c = CLAIMED[pid]
        checks.append({
            'property_id': pid,
            'quick_cmd': f'./check {pid} --tier quick',
            'thorough_cmd': f'./check {pid} --tier thorough',
            'evidence_file': f'evidence/{pid}.json',
            'replay_cmd_template': f'./check {pid} --replay {{path}}',
            'engine': c.get('engine', 'symex'),
            'level_claimed': {'category': 'model_checking', 'text': c['text'],
                              'design_ref': c.get('design_ref', f'DESIGN.md section 3, {pid}')},
            'level_note': c['note'],
            'technique': c['technique'],
        })
na = [{'property_id': p['id'], 'reason': NOT_APPLICABLE[p['id']]} for p in props
      if p['id'] not in CLAIMED]
manifest = {
    'version': 1,
    'setup_cmd': './setup.sh',
    'hooks': {
        'guard': 'UOFTCPRG_POKERKIT_VERIF',
        'enable': 'no source hooks: all instrumentation is applied by the checker process at import time '
                  '(monkey-patching State._update, shuffle, Hand.from_game); /repo is imported from its working tree via PYTHONPATH',
        'baseline_off_cmd': 'cd /repo && /venv/bin/python -m pytest -ra -q -p no:cacheprovider --timeout=900',
        'source_commits': [],
        'add_only': True,
    },
    'engines': [
        {'name': 'symex', 'path': 'engine/symex.py',
         'serves_properties': sorted(k for k, v in CLAIMED.items() if v.get('engine', 'symex') in ('symex', 'symex+smt')),
         'kind_free_text': 'bounded symbolic execution of the real Python code: CrossHair 0.0.110 tracer + state space, '
                           'z3 decides every branch; all feasible paths within the stated bounds are enumerated; '
                           'counterexample models are replayed natively'},
        {'name': 'smt', 'path': 'engine/smt_tables.py',
         'serves_properties': sorted(k for k, v in CLAIMED.items() if v.get('engine') in ('smt', 'symex+smt')),
         'kind_free_text': 'direct SMT obligations (z3 5.1 API, /usr/bin/z3 4.8.12 and cvc5 as cross-check) generated on every run '
                           'from the objects/source /repo currently contains (lookup tables, small pure functions)'},
    ],
    'checks': checks,
    'not_applicable': na,
    'notes': 'Technique family: solver-based checking of the real code. Exit 0 = no unlisted violation; '
             'INCONCLUSIVE obligations are printed and counted in the evidence, never counted as success; '
             'exit 1 + VIOLATION line only after the counterexample replays natively; exit 3 = harness error.',
}
(VERIF / 'MANIFEST.json').write_text(json.dumps(manifest, indent=1) + '\n')
print('claimed', len(checks), 'not_applicable', len(na))
