# edited by hand; consumed by gen_manifest.py
SYMEX = 'bounded symbolic execution of the real code (CrossHair tracer + z3, all paths within bounds), counterexamples replayed natively'
CLAIMED['C01'] = dict(
    technique=SYMEX,
    text='Bounded symbolic model checking of State: stacks, antes, blinds/bring-in and raise amounts are z3 integers, '
         'every feasible path of constructor + a bounded shape of decisions + check-down is explored and the conservation '
         'invariant is asserted after every logged operation. Holds for all chip values within the bounds, says nothing beyond the shapes.',
    note='int chips; concrete deck order; decision depth bounded (see evidence bounds); CrossHair/z3 trusted; error-message text not checked')
_PENDING = 'check not yet built in this round (planned: see DESIGN.md section 3); not claimed until its machinery exists'
for _i in range(1, 21):
    _pid = f'C{_i:02d}'
    if _pid not in CLAIMED:
        NOT_APPLICABLE[_pid] = _PENDING
NOT_APPLICABLE['C20'] = ('site-log importers are ~60 regular expressions over multi-line text: symbolic text of that size is out of '
                         'reach for CrossHair (re on symbolic str is inconclusive) and z3/cvc5 string theories cannot express Python '
                         'capture-group semantics; no format specification exists to encode against (DESIGN.md C20)')
