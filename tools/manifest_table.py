# edited by hand; consumed by gen_manifest.py
SYMEX = 'bounded symbolic execution of the real code (CrossHair tracer + z3, all paths within bounds), counterexamples replayed natively'
CLAIMED['C01'] = dict(
    technique=SYMEX,
    text='Bounded symbolic model checking of State: stacks, antes, blinds/bring-in and raise amounts are z3 integers, '
         'every feasible path of constructor + a bounded shape of decisions + check-down is explored and the conservation '
         'invariant is asserted after every logged operation. Holds for all chip values within the bounds, says nothing beyond the shapes.',
    note='int chips; concrete deck order; decision depth bounded (see evidence bounds); CrossHair/z3 trusted; error-message text not checked')
_PENDING = 'check not yet built in this round (planned: see DESIGN.md section 3); not claimed until its machinery exists'
for _i in range(1, 21):
    _pid = f'C{_i:02d}'
    if _pid not in CLAIMED:
        NOT_APPLICABLE[_pid] = _PENDING
NOT_APPLICABLE['C20'] = ('site-log importers are ~60 regular expressions over multi-line text: symbolic text of that size is out of '
                         'reach for CrossHair (re on symbolic str is inconclusive) and z3/cvc5 string theories cannot express Python '
                         'capture-group semantics; no format specification exists to encode against (DESIGN.md C20)')
CLAIMED['C02'] = dict(
    technique=SYMEX + '; parametric evaluator (hand strength per card set = solver variable) vs independent side-pot oracle',
    text='Bounded symbolic model checking: the real betting/collection/pots/showdown/push/pull code runs on symbolic stacks, raise amounts and '
         'symbolic hand strengths (a user Hand type whose strength per card set is a z3 integer, optional "no qualifying hand"), so every deal is covered; '
         'what each player receives from each pot and the final payoffs are compared with an oracle written from the statement.',
    note='evaluator abstracted to any monotone strength function; contributions read from the engine (C01); n<=3 quick, shapes bounded; int chips; concrete deck order')
CLAIMED['C04'] = dict(
    engine='symex+smt',
    technique='SMT (z3 QF_BV): lookup tables dumped from the running code vs rule oracle over symbolic rank multisets, per-category pair queries; '
              'CrossHair symbolic execution of the real comparison operators and key functions',
    text='For every lookup table the current source builds, unsat answers show: present<=>valid, label==category, category ranges ordered as the rules say, '
         'and rule order<=>index order for all pairs of rank multisets of the type (complete for the class space, e.g. all 7462 standard classes); '
         'the real Hand.__lt__/__eq__/__hash__ are explored on symbolic indices and the key functions on all 1-2 card sets incl. unknown cards.',
    note='rule oracle per type is mine (transcribed from the rules); card sets only (no duplicate cards); class->cards step beyond 2 cards relies on uniformity of prod()/set() in the number of cards; z3 trusted')
