# edited by hand; consumed by gen_manifest.py
SYMEX = 'bounded symbolic execution of the real code (CrossHair tracer + z3, all paths within bounds), counterexamples replayed natively'
CLAIMED['C01'] = dict(
    technique=SYMEX,
    text='Bounded symbolic model checking of State: stacks, antes, blinds/bring-in and raise amounts are z3 integers, '
         'every feasible path of constructor + a bounded shape of decisions + check-down is explored and the conservation '
         'invariant is asserted after every logged operation. Holds for all chip values within the bounds, says nothing beyond the shapes.',
    note='int chips; concrete deck order; decision depth bounded (see evidence bounds); CrossHair/z3 trusted; error-message text not checked')
_PENDING = 'check not yet built in this round (planned: see DESIGN.md section 3); not claimed until its machinery exists'
for _i in range(1, 21):
    _pid = f'C{_i:02d}'
    if _pid not in CLAIMED:
        NOT_APPLICABLE[_pid] = _PENDING
NOT_APPLICABLE['C20'] = ('site-log importers are ~60 regular expressions over multi-line text: symbolic text of that size is out of '
                         'reach for CrossHair (re on symbolic str is inconclusive) and z3/cvc5 string theories cannot express Python '
                         'capture-group semantics; no format specification exists to encode against (DESIGN.md C20)')
CLAIMED['C02'] = dict(
    technique=SYMEX + '; parametric evaluator (hand strength per card set = solver variable) vs independent side-pot oracle',
    text='Bounded symbolic model checking: the real betting/collection/pots/showdown/push/pull code runs on symbolic stacks, raise amounts and '
         'symbolic hand strengths (a user Hand type whose strength per card set is a z3 integer, optional "no qualifying hand"), so every deal is covered; '
         'what each player receives from each pot and the final payoffs are compared with an oracle written from the statement.',
    note='evaluator abstracted to any monotone strength function; contributions after an independent rule for the uncalled part of a bet (checked at every bet collection); n<=3 quick, shapes bounded; int chips; concrete deck order')
CLAIMED['C04'] = dict(
    engine='symex+smt',
    technique='SMT (z3 QF_BV): lookup tables dumped from the running code vs rule oracle over symbolic rank multisets, per-category pair queries; '
              'CrossHair symbolic execution of the real comparison operators and key functions',
    text='For every lookup table the current source builds, unsat answers show: present<=>valid, label==category, category ranges ordered as the rules say, '
         'and rule order<=>index order for all pairs of rank multisets of the type (complete for the class space, e.g. all 7462 standard classes); '
         'the real Hand.__lt__/__eq__/__hash__ are explored on symbolic indices, the key functions on all 1-2 card sets incl. unknown cards, and every hand class on its argument forms (text, list, one-shot iterators).',
    note='rule oracle per type is mine (transcribed from the rules); card sets only (no duplicate cards); class->cards step beyond 2 cards relies on uniformity of prod()/set() in the number of cards; z3 trusted')
CLAIMED['C03'] = dict(
    technique=SYMEX + '; history-based betting-rule model as oracle, symbolic amount probe',
    text='At every betting decision of every explored history (symbolic stacks and raise sizes) the real queries are compared with a rule model derived '
         'from the action history, and for a symbolic amount x can_complete_bet_or_raise_to(x) <=> x in the model range (all x at once).',
    note='opener of each round and chips at round start read from the engine (C13/C01); depth <= 3 (n=2), <= 2 (n=3) quick; scripted 4-player short-all-in shapes with symbolic stacks (re-raise only when facing a full raise); blinds concrete 1/2; int chips')
CLAIMED['C05'] = dict(
    technique=SYMEX + '; parametric lookup (validity bit and strength index per card subset are solver variables)',
    text='The real from_game composition code runs over placeholder cards with a lookup whose has_entry/get_entry answers are z3 variables; an oracle enumerating the '
         'legal combinations from the documented rule asserts legality, maximality (respecting low) and None/ValueError exactly when no legal combination is valid.',
    note='small card counts stand for full-size games (loops are size-generic itertools.combinations); full-size Omaha (60 combinations) outside the claim')
CLAIMED['C07'] = dict(
    technique=SYMEX + '; automation membership decided by the solver (11 boolean variables), real code run natively between decisions',
    text='All 2^11 automation subsets per scripted hand: exactly one phase family enabled while live, none after; documented phase order; progress and bounded length; '
         'no exception from constructor or legal operations (incl. the winner tabling his hand after a fold-out); a dealing of no cards is not legal. Plus a traced family with a symbolic stack.',
    note='scripted player decisions; concrete chips in the 2^11 family; mechanical steps in documented order with default arguments')
CLAIMED['C08'] = dict(
    technique=SYMEX + '; symbolic operation arguments at every point of scripted un-automated hands',
    text='At every point of scripted hands one of the 17 operations is called with symbolic arguments; can_X never raises, verify_X and X agree with it, refusals are '
         'ValueError/UserWarning, and the whole dataclass state is unchanged after queries, verifiers and refused operations; explicit index == index operated on.',
    note='probe sites = points of concrete scripted hands; card arguments from a symbolic selector over 8 kinds; known finding F12 carved out')
CLAIMED['C09'] = dict(
    technique=SYMEX + '; symbolic automation subset vs un-automated twin, log and state equality',
    text='For every automation subset (11 solver booleans) the automated run and its un-automated twin (user performs automated steps with default arguments as soon as '
         'available) produce identical operation logs and final states, on the same deck order and scripted decisions.',
    note='scripted decisions; concrete chips in the 2^11 family + one traced symbolic-stack family')
CLAIMED['C15'] = dict(
    technique=SYMEX + '; log replay on a fresh un-automated state, symbolic copy position, container-identity check',
    text='For every automation subset / showdown choice the logged operations replay to the same log and state; a deepcopy at every position shares no mutable container, '
         'is independent of the original and behaves identically.',
    note='scripted betting decisions; concrete chips except one traced family')
CLAIMED['C19'] = dict(
    engine='symex+smt',
    technique=SYMEX + '; AST->z3 translation of utilities.rake (QF_FP lemma + LIA obligations)',
    text='clean_values forms vs the explicit list (symbolic amounts/keys), constructors from equivalent representations, Card.parse/clean over pinned ranks/suits and all raw '
         'text of <= 2 characters, constructor rejection <=> documented conditions, divmod/rake parts add up; int, Fraction, Decimal and float chips on the grid p/10^e (p<100, e<=2; thorough p<400, e<=3) for clean_values, the constructor and divmod.',
    note='rake lemma A discharged at binary16 only (binary64 assumed: monotone IEEE rounding); text longer than 2 raw characters / 2 cards outside')
CLAIMED['C12'] = dict(
    technique=SYMEX + '; parametric evaluator, payoffs vs everybody-shows oracle',
    text='With symbolic stacks and symbolic hand strengths (every deal at once) the engine decides who shows, mucks and is killed; final payoffs equal the side-pot oracle applied '
         'to all players who did not fold; a mucked/killed player holds no best hand for any pot/board/type he is eligible for; tournament shows are complete; showdown order starts with the last aggressor.',
    note='two-pass oracle: pots are re-layered over the players who can win something (the engine merges pots contested by the same players, also when everybody shows); n<=3; mini hold\'em streets')
CLAIMED['C13'] = dict(
    technique=SYMEX + '; symbolic blind/post/stack layouts, pinned symbolic door cards, symbolic exposed-hand entries',
    text='First-round and later-round openers of button games for symbolic stacks, blinds, straddle and post amounts; stud bring-in for every pair/triple of door cards; '
         'later stud streets with symbolic exposed-hand strengths (real _begin_betting, stubbed private lookups).',
    note='standard layouts only; known finding F13 (heads-up equal blinds) carved out; opening lookup tables themselves are C04')
CHOICE = ('bounded symbolic exploration of the real code: every choice (fold bits, masks, counts, preferences, orders, automation bits) is a solver variable decided '
          'through the CrossHair/z3 search tree, the real code runs natively between decisions; all feasible choice vectors within the bounds are exhausted')
CLAIMED['C06'] = dict(
    technique=CHOICE + '; card-partition monitor after every logged operation',
    text='After every operation of every explored history the six card containers partition the configured deck; reserves are recycled only when the deck is short; '
         'explicit/unknown cards never duplicate a known card (explicit hole cards and boards taken from deck, burn pile and, at exhaustion, the reserve). Covers draw games with exhaustion in later draws and 8-handed stud (52-card exhaustion and board fallback).',
    note='weakest fit of the technique family (discrete state, finite choice spaces); chips and card identities concrete; deck order stub')
CLAIMED['C10'] = dict(
    technique=CHOICE + '; dealing oracle computed from the Street tuples',
    text='Per street: prescribed hole cards and facing for every live player, prescribed board cards per board, burn first iff prescribed, dealee order, no betting before dealing '
         'is complete, draws return as many cards with the same facing, board fallback when the cards cannot cover a stud street; Street validation on symbolic values.',
    note='as C06; custom mixed up/down + draw street list included')
CLAIMED['C14'] = dict(
    technique=CHOICE + '; plus traced parametric-evaluator jobs for pot division over boards',
    text='All-in on every street x preference vectors in {None,1,2,3} x every selection order x select-before/after-show: offering conditions, asked exactly once, consensus rule, '
         'b*r complete boards sharing exactly the pre-all-in cards, pots divided evenly over boards (odd chips to board 0), chips conserved.',
    note='concrete chips/cards in the choice family; n<=3; hold\'em/PLO only')
CLAIMED['C11'] = dict(
    technique=SYMEX + '; rule model parameterised by the DOCUMENTED structure; concrete variant table (supporting)',
    text='All 12 variants: symbolic stacks/raise sizes/probe amount against the documented structure (fixed-limit: exactly the fixed size, fifth bet/raise refused also after a short all-in raise; '
         'no-limit: up to the stack; pot-limit: up to the pot), small/big-bet streets, pot-limit after a fold (3 players), cards per street of 11 variants under any split of the dealing operations; plus a transcribed table of deck, hand types, streets, opening, cap and PHH codes.',
    note='documentation table transcribed by hand (harness/c11.py DOC); depth <= 2 quick')
CLAIMED['C16'] = dict(
    engine='symex+smt',
    technique=CHOICE + '; z3 string theory: quoting branch of HandHistory.dumps translated from source vs TOML literal-string grammar',
    text='11 PHH variants: from_game_state -> dumps -> loads equal, second dump identical, replay of the loaded history reproduces actions, cards, stacks, payoffs; corrupted action lines are '
         'reported; user fields and commentary kept. For all ASCII strings of length <= 7 (thorough: 8) on the literal-string paths of dumps the emitted TOML string denotes the original (unsat); the escaped-string region and quoted keys by execution of dumps/loads over every ASCII code point in 10 contexts and all words <= 3 over 16 character classes.',
    note='chips concrete (int + one Decimal family); tomllib/TOML 1.0 grammar transcribed; F10 repaired (fix: e2db7c9), its inputs kept as a regression job')
CLAIMED['C17'] = dict(
    technique=CHOICE + '; oracle from the harness\'s own tally of committed chips',
    text='FT/NT, n=2..6, all fold/call/raise x size choices for the first decisions, voluntary mucks, partial shows (cash game), flop and hole cards dealt card by card and written uncompressed, every viewer seat: ACPC match states and Pluribus line equal the oracle; '
         'the Pluribus line parses back to a history replaying to the same actions, stacks and line.',
    note='chips/cards concrete; mucks during all-in run-outs excluded (not expressible in the protocol)')
CLAIMED['C18'] = dict(
    engine='symex+smt',
    technique=SYMEX + '; real calculate_icm executed on z3 Real variables (operator overloading) and decided by z3 nlsat',
    text='Range notation for all rank pairs/intervals vs an index-based oracle; equities of fully specified deals with symbolic strengths (incl. no-low) vs the engine share rule, and with the real hand types of 10 variants vs what the real engine pays (208 deck orders each); '
         'ICM: non-negative, sums to the prize pool, ordered as chips, for all positive real chips and non-increasing payouts (n<=3 complete via the cut at chip_percentages, partly n=4).',
    note='sampling paths outside (random stubs); ICM over the reals; some n=3/4 order obligations may be inconclusive (reported)')
