#!/bin/bash
# run the quick checks of the owning property against every stored seed (sequentially)
cd "$(dirname "$0")/.."
for d in seeded/*/; do
  s=$(basename "$d")
  if [ -n "$1" ] && [[ "$s" != $1 ]]; then continue; fi
  python3 tools/run_seed.py "$s" ${2:+--props $2} 2>&1 | tail -2
done
