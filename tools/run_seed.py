#!/usr/bin/env python3
"""Run the checks of one or more properties against a seeded change.

usage: run_seed.py <seed-id> [--props C01,C02] [--tier quick] [--jobs glob]
The change is applied in a scratch worktree of /repo (outside /repo and /verif),
the checks run with VERIF_REPO pointing at it (same code path as against /repo),
and the worktree is removed afterwards.  Result -> seeded/<id>/detection.json"""
import argparse
import json
import os
import subprocess
import sys
import time
from pathlib import Path

VERIF = Path(__file__).resolve().parent.parent
ap = argparse.ArgumentParser()
ap.add_argument('seed')
ap.add_argument('--props')
ap.add_argument('--tier', default='quick')
ap.add_argument('--jobs', default='*')
ap.add_argument('--workers', default='16')
a = ap.parse_args()
sd = VERIF / 'seeded' / a.seed
meta = json.loads((sd / 'meta.json').read_text())
props = a.props.split(',') if a.props else [meta['property']]
wt = f'/tmp/seedwt/run_{a.seed}'
os.makedirs('/tmp/seedwt', exist_ok=True)
subprocess.run(['git', '-C', '/repo', 'worktree', 'add', '-q', '--detach', wt, 'HEAD'], check=True)
out = {'seed': a.seed, 'tier': a.tier, 'runs': []}
try:
    subprocess.run(['git', 'apply', str(sd / 'patch.diff')], cwd=wt, check=True)
    for p in props:
        env = dict(os.environ, VERIF_REPO=wt, VERIF_WORKERS=a.workers)
        t = time.time()
        r = subprocess.run([str(VERIF / 'check'), p, '--tier', a.tier, '--no-evidence', '--jobs', a.jobs],
                           capture_output=True, text=True, env=env)
        viol = [l for l in r.stdout.splitlines() if l.startswith('VIOLATION')]
        kinds = [l for l in r.stdout.splitlines() if ': violation ' in l]
        out['runs'].append({'property': p, 'rc': r.returncode, 'detected': r.returncode == 1 and bool(viol),
                            'violation_lines': viol[:5], 'violating_jobs': kinds[:8],
                            'wall_s': round(time.time() - t), 'jobs_filter': a.jobs,
                            'tail': r.stdout.splitlines()[-3:]})
        print(p, 'rc', r.returncode, 'detected' if viol else 'MISSED', kinds[:3])
finally:
    subprocess.run(['git', '-C', '/repo', 'worktree', 'remove', '--force', wt])
f = sd / 'detection.json'
prev = json.loads(f.read_text()) if f.exists() else {'history': []}
prev['history'].append(out)
prev['detected_by'] = sorted({r['property'] for h in prev['history'] for r in h['runs'] if r['detected']})
f.write_text(json.dumps(prev, indent=1))
