#!/bin/bash
# usage: seed_confirm.sh <seed-src-dir (contains patch.diff demo.py meta.json)> <name>
# Confirms in a scratch worktree: demo passes on HEAD, fails with patch, suite passes with patch.
src="$1"; name="$2"
wt="/tmp/seedwt/$name"
mkdir -p /tmp/seedwt
git -C /repo worktree add -q --detach "$wt" HEAD || exit 9
cd "$wt"
res="$src/confirm.txt"; : > "$res"
PYTHONPATH="$wt" /venv/bin/python "$src/demo.py" > /dev/null 2>&1; echo "demo_on_original_rc=$?" >> "$res"
if git apply --check "$src/patch.diff" 2>/dev/null; then
  git apply "$src/patch.diff"
  PYTHONPATH="$wt" /venv/bin/python "$src/demo.py" > "$src/demo_mutated.out" 2>&1; echo "demo_on_mutated_rc=$?" >> "$res"
  /venv/bin/python -m pytest -q -p no:cacheprovider --timeout=900 pokerkit/tests 2>&1 | tail -1 >> "$res"
else
  echo "patch_does_not_apply" >> "$res"
fi
cd /
git -C /repo worktree remove --force "$wt"
cat "$res"
