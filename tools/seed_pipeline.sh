#!/bin/bash
# usage: seed_pipeline.sh <round> <workers>   -- confirm, store and run every delivered seed of the round, one at a time
rnd="$1"; w="${2:-8}"
cd /verif
while true; do
  did=0
  for d in /tmp/seedkeep/${rnd}_*_m?; do
    [ -f "$d/patch.diff" ] && [ -f "$d/demo.py" ] && [ -f "$d/meta.json" ] || continue
    [ -f "$d/done" ] && continue
    b=$(basename "$d"); pid=$(echo "$b" | cut -d_ -f2); m=$(echo "$b" | cut -d_ -f3)
    # wait until the agent has cleaned its worktree (deliverables complete): patch must be non-empty
    [ -s "$d/patch.diff" ] || continue
    if [ ! -f "$d/confirm.txt" ]; then tools/seed_confirm.sh "$d" "$b" > /dev/null 2>&1; fi
    python3 tools/store_seeds.py "$rnd" "$pid" >> /tmp/seedkeep/pipeline.log 2>&1
    if [ -d "seeded/${pid}-${rnd}${m}" ]; then
      python3 tools/run_seed.py "${pid}-${rnd}${m}" --workers "$w" >> /tmp/seedkeep/pipeline.log 2>&1
    fi
    touch "$d/done"; did=1
  done
  [ -f /tmp/seedkeep/stop ] && exit 0
  [ $did = 0 ] && sleep 20
done
