#!/usr/bin/env python3
"""seeded/SUMMARY.md: which check catches which seeded change."""
import json
from pathlib import Path
V = Path(__file__).resolve().parent.parent
rows = []
for d in sorted((V / 'seeded').iterdir()):
    if not d.is_dir():
        continue
    meta = json.loads((d / 'meta.json').read_text())
    det = json.loads((d / 'detection.json').read_text()) if (d / 'detection.json').exists() else {}
    last = {}
    for h in det.get('history', []):
        for r in h['runs']:
            last[r['property']] = r
    by = ', '.join(f"{p}: {'DETECTED' if r['detected'] else 'missed'} ({(r['violating_jobs'] or [''])[0].split(':')[0].replace('[' + p + '] ', '')})"
                   for p, r in sorted(last.items())) or 'not run yet'
    rows.append(f"| {d.name} | {meta.get('property')} | {meta.get('summary', '')[:160].replace('|', '/')} | {by} |")
out = ['# Seeded changes and the checks that catch them', '',
       '| seed | property | change | latest result per check (first violating job) |', '|---|---|---|---|'] + rows
(V / 'seeded' / 'SUMMARY.md').write_text('\n'.join(out) + '\n')
print('\n'.join(out[-len(rows):]))
