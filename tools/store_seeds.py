#!/usr/bin/env python3
"""store confirmed sub-agent outputs (/tmp/seedkeep/r<round>_<pid>_m<k>) as seeded/<pid>-r<round>m<k>."""
import json, os, shutil, sys
rnd = sys.argv[1]
for pid in sys.argv[2:]:
    for m in ('m1', 'm2'):
        src = f'/tmp/seedkeep/{rnd}_{pid}_{m}'
        dst = f'/verif/seeded/{pid}-{rnd}{m}'
        if os.path.exists(dst):
            continue
        if not os.path.exists(f'{src}/confirm.txt'):
            print('no confirm yet', pid, m)
            continue
        conf = open(f'{src}/confirm.txt').read()
        ok = 'demo_on_original_rc=0' in conf and 'demo_on_mutated_rc=1' in conf and '145 passed' in conf
        if not ok:
            print('NOT CONFIRMED', pid, m, conf)
            continue
        os.makedirs(dst, exist_ok=True)
        shutil.copy(f'{src}/patch.diff', dst)
        shutil.copy(f'{src}/demo.py', dst)
        meta = json.load(open(f'{src}/meta.json'))
        meta['confirmed_by_me'] = {'how': 'tools/seed_confirm.sh in a scratch worktree of /repo HEAD: demo.py exits 0 on original, 1 with the patch; pytest pokerkit/tests with the patch', 'result': conf.strip().splitlines()}
        meta['origin'] = {'r3': 'round 3', 'r4': 'round 4'}.get(rnd, rnd) + ': independent sub-agent given the property text, its own worktree and the summaries of the earlier changes for this property'
        json.dump(meta, open(f'{dst}/meta.json', 'w'), indent=1)
        print('stored', dst)
